(* TraceProofs.v - Model B (Trace.v): values agree with the eager reference (A), demand-driven evaluation (B, C08),
   profiling counts (C, C20).  Standard library only; no axioms. *)
From Coq Require Import String.
From Coq Require Import List Arith ZArith Bool Lia ZifyBool ZifyNat.
Require Import LD.Base LD.Trace.
Import ListNotations.
Local Open Scope nat_scope.

(* ------------------------------------------------------------------------------------------------ *)
(* well-formedness *)

(* no LFilter / LUnbatch anywhere below: the pipeline has a length and supports random access *)
Fixpoint indexable_l (d : lds) : bool :=
  match d with
  | LSrc _ _ => true
  | LMap _ _ d' | LBatch _ _ d' | LSlice _ _ d' => indexable_l d'
  | LFilter _ _ _ | LUnbatch _ _ => false
  | LConcat _ a b | LZip _ a b => indexable_l a && indexable_l b
  end.

(* batch sizes >= 1; batches hold lists; slice indices in range of an indexable input; zip inputs indexable
   (zip needs len() of both inputs) and of equal length *)
Fixpoint lwf (d : lds) : Prop :=
  match d with
  | LSrc _ _ => True
  | LMap _ _ d' | LFilter _ _ d' => lwf d'
  | LBatch _ n d' => 1 <= n /\ lwf d'
  | LUnbatch _ d' => lwf d' /\ Forall (fun v => match v with VList _ | VTup _ => True | _ => False end) (lref d')
  | LConcat _ a b => lwf a /\ lwf b
  | LZip _ a b => lwf a /\ lwf b /\ length (lref a) = length (lref b)
                  /\ indexable_l a = true /\ indexable_l b = true
  | LSlice _ idx d' => lwf d' /\ indexable_l d' = true /\ Forall (fun i => i < length (lref d')) idx
  end.

Definition root_id (d : lds) : nat :=
  match d with
  | LSrc id _ | LMap id _ _ | LFilter id _ _ | LBatch id _ _ | LUnbatch id _ | LConcat id _ _ | LZip id _ _
  | LSlice id _ _ => id
  end.

(* the sub-pipeline whose root carries the id (first match in pre-order) *)
Fixpoint sub (id : nat) (d : lds) : option lds :=
  if Nat.eqb (root_id d) id then Some d else
  match d with
  | LSrc _ _ => None
  | LMap _ _ d' | LFilter _ _ d' | LBatch _ _ d' | LUnbatch _ d' | LSlice _ _ d' => sub id d'
  | LConcat _ a b | LZip _ a b => match sub id a with Some x => Some x | None => sub id b end
  end.

(* the shortest prefix of l containing k elements satisfying p (all of l if there are fewer; [] for k = 0) *)
Fixpoint upto_kth_pass (p : val -> bool) (k : nat) (l : list val) : list val :=
  match l with
  | [] => []
  | x :: r => match k with
              | O => []
              | S k' => x :: upto_kth_pass p (if p x then k' else k) r
              end
  end.

Definition ev_id (e : ev) : nat := match e with Fetch i | App i _ | Fail i => i end.
(* remove every event of stage r *)
Definition drop (r : nat) (l : list ev) : list ev := filter (fun e => negb (Nat.eqb (ev_id e) r)) l.

(* ------------------------------------------------------------------------------------------------ *)
(* observers are monoid homomorphisms *)

Lemma apps_of_app id a b : apps_of id (a ++ b) = apps_of id a ++ apps_of id b.
Proof. apply flat_map_app. Qed.
Lemma fetches_of_app id a b : fetches_of id (a ++ b) = fetches_of id a + fetches_of id b.
Proof. unfold fetches_of. now rewrite filter_app, app_length. Qed.
Lemma fails_of_app id a b : fails_of id (a ++ b) = fails_of id a + fails_of id b.
Proof. unfold fails_of. now rewrite filter_app, app_length. Qed.
Lemma drop_app r a b : drop r (a ++ b) = drop r a ++ drop r b.
Proof. apply filter_app. Qed.
Lemma drop_nil r : drop r [] = [].
Proof. reflexivity. Qed.
Lemma drop_fetch r : drop r [Fetch r] = [].
Proof. unfold drop; simpl. now rewrite Nat.eqb_refl. Qed.
Lemma drop_app_fetch r v : drop r [App r v; Fetch r] = [].
Proof. unfold drop; simpl. now rewrite Nat.eqb_refl. Qed.
Lemma drop_app1 r v : drop r [App r v] = [].
Proof. unfold drop; simpl. now rewrite Nat.eqb_refl. Qed.

Lemma apps_of_drop id r l : id <> r -> apps_of id (drop r l) = apps_of id l.
Proof.
  intros H. induction l as [|e l IH]; simpl; auto.
  destruct e as [i|i a|i]; simpl; destruct (Nat.eqb_spec i r); simpl; auto.
  - subst. destruct (Nat.eqb_spec r id); [congruence|]. auto.
  - now rewrite IH.
Qed.
Lemma fetches_of_drop id r l : id <> r -> fetches_of id (drop r l) = fetches_of id l.
Proof.
  intros H. unfold fetches_of. induction l as [|e l IH]; simpl; auto.
  destruct e as [i|i a|i]; simpl; destruct (Nat.eqb_spec i r); simpl; auto.
  - subst. destruct (Nat.eqb_spec r id); [congruence|]. auto.
  - destruct (Nat.eqb i id); simpl; auto.
Qed.

Lemma events_upto_cons k s l fin : events_upto (S k) (s :: l, fin) = fst s ++ events_upto k (l, fin).
Proof. reflexivity. Qed.
Lemma events_upto_0 s : events_upto 0 s = [].
Proof. reflexivity. Qed.
Lemma events_upto_nil k fin : events_upto k ([], fin) = [].
Proof. unfold events_upto. simpl. now rewrite firstn_nil. Qed.
Lemma all_events_cons s l fin : all_events (s :: l, fin) = fst s ++ all_events (l, fin).
Proof. unfold all_events. simpl. now rewrite app_assoc. Qed.
Lemma all_events_nil fin : all_events ([], fin) = fin.
Proof. reflexivity. Qed.
Lemma events_upto_all k s : length (fst s) <= k -> events_upto k s ++ snd s = all_events s.
Proof. intros H. unfold events_upto, all_events. now rewrite firstn_all2. Qed.

(* ------------------------------------------------------------------------------------------------ *)
(* A. values *)

Lemma skipn_skipn' {A} a b (l : list A) : skipn a (skipn b l) = skipn (b + a) l.
Proof.
  revert l. induction b as [|b IH]; intros l; simpl; auto.
  destruct l; simpl; auto. now rewrite skipn_nil.
Qed.

Lemma chunk_nth fuel n l i : 1 <= n -> length l <= fuel ->
  nth_error (chunk fuel n l) i =
  if i * n <? length l then Some (VList (firstn n (skipn (i * n) l))) else None.
Proof.
  intros Hn. revert l i. induction fuel as [|f IH]; intros l i Hl.
  - destruct l; simpl in *; [|lia]. destruct (Nat.ltb_spec (i * n) 0); [lia|]. destruct i; reflexivity.
  - destruct l as [|x r].
    + simpl. destruct (Nat.ltb_spec (i * n) 0); [lia|]. destruct i; reflexivity.
    + cbn [chunk]. destruct i as [|i].
      * simpl. reflexivity.
      * cbn [nth_error]. rewrite IH by (rewrite skipn_length; cbn [length] in *; lia).
        rewrite skipn_length, skipn_skipn'. replace (S i * n) with (n + i * n) by lia.
        destruct (Nat.ltb_spec (i * n) (length (x :: r) - n)), (Nat.ltb_spec (n + i * n) (length (x :: r)));
          auto; lia.
Qed.

Lemma skipn_nth_cons {A} (l : list A) s v : nth_error l s = Some v -> skipn s l = v :: skipn (S s) l.
Proof.
  revert l. induction s as [|s IH]; intros [|x l] H; simpl in *; try discriminate.
  - now inversion H.
  - now apply IH.
Qed.

Lemma batch_get_spec get fails (L : list val) :
  (forall j, option_map snd (get j) = nth_error L j) ->
  forall k start first,
  match batch_get get fails start k first with
  | Some (es, vs) => vs = firstn k (skipn start L) /\ (first = true -> 1 <= k -> start < length L)
  | None => first = true /\ 1 <= k /\ length L <= start
  end.
Proof.
  intros G. induction k as [|k IH]; intros start first; simpl.
  - split; auto. lia.
  - specialize (IH (S start) false). pose proof (G start) as Gs.
    destruct (get start) as [[e v]|]; simpl in Gs.
    + destruct (batch_get get fails (S start) k false) as [[es vs]|].
      * destruct IH as [-> _]. symmetry in Gs. split.
        -- rewrite (skipn_nth_cons _ _ _ Gs). reflexivity.
        -- intros _ _. apply nth_error_Some. congruence.
      * destruct IH; discriminate.
    + symmetry in Gs. apply nth_error_None in Gs. destruct first.
      * repeat split; auto; lia.
      * destruct (batch_get get fails (S start) k false) as [[es vs]|].
        -- destruct IH as [-> _]. split; [|discriminate].
           rewrite !skipn_all2 by lia. now rewrite !firstn_nil.
        -- destruct IH; discriminate.
Qed.

Lemma nth_error_combine {A B} (a : list A) (b : list B) i :
  nth_error (combine a b) i =
  match nth_error a i, nth_error b i with Some x, Some y => Some (x, y) | _, _ => None end.
Proof.
  revert b i. induction a as [|x a IH]; intros b i; simpl.
  - destruct i; reflexivity.
  - destruct b as [|y b]; simpl.
    + destruct i; simpl; auto. destruct (nth_error a i); auto.
    + destruct i; simpl; auto.
Qed.

Lemma nth_error_slice (L : list val) idx i :
  Forall (fun j => j < length L) idx ->
  nth_error (flat_map (fun j => match nth_error L j with Some v => [v] | None => [] end) idx) i =
  match nth_error idx i with Some j => nth_error L j | None => None end.
Proof.
  intros H. revert i. induction H as [|j r Hj Hr IH]; intros i; simpl.
  - destruct i; reflexivity.
  - destruct (nth_error L j) as [v|] eqn:E.
    + destruct i; simpl; auto.
    + apply nth_error_None in E. lia.
Qed.

(* random access returns the reference value at that position, and fails exactly when out of range *)
Lemma get_s_val d : lwf d -> indexable_l d = true ->
  forall i, option_map snd (get_s d i) = nth_error (lref d) i.
Proof.
  induction d as [id vs|id f d IH|id p d IH|id n d IH|id d IH|id a IHa b IHb|id a IHa b IHb|id idx d IH];
    simpl; intros W X i; try discriminate.
  - destruct (nth_error vs i); reflexivity.
  - rewrite nth_error_map, <- (IH W X i). destruct (get_s d i) as [[e v]|]; reflexivity.
  - destruct W as [Hn W]. specialize (IH W X).
    replace (Nat.max n 1) with n by lia.
    pose proof (batch_get_spec (get_s d) (fail_path d) (lref d) IH n (i * n) true) as S.
    rewrite chunk_nth by lia.
    destruct (batch_get (get_s d) (fail_path d) (i * n) n true) as [[es vs]|]; simpl.
    + destruct S as [-> S]. destruct (Nat.ltb_spec (i * n) (length (lref d))); auto.
      specialize (S eq_refl Hn). lia.
    + destruct S as (_ & _ & S). destruct (Nat.ltb_spec (i * n) (length (lref d))); auto. lia.
  - destruct W as [Wa Wb]. apply andb_true_iff in X as [Xa Xb].
    destruct (Nat.ltb_spec i (length (lref a))).
    + rewrite nth_error_app1 by lia. rewrite <- (IHa Wa Xa i). destruct (get_s a i) as [[e v]|]; reflexivity.
    + rewrite nth_error_app2 by lia. rewrite <- (IHb Wb Xb).
      destruct (get_s b (i - length (lref a))) as [[e v]|]; reflexivity.
  - destruct W as (Wa & Wb & _). apply andb_true_iff in X as [Xa Xb].
    rewrite nth_error_map, nth_error_combine, <- (IHa Wa Xa i), <- (IHb Wb Xb i).
    destruct (get_s a i) as [[ea va]|], (get_s b i) as [[eb vb]|]; reflexivity.
  - destruct W as (W & X' & R). rewrite nth_error_slice by assumption.
    destruct (nth_error idx i) as [j|]; auto.
    rewrite <- (IH W X' j). destruct (get_s d j) as [[e v]|]; reflexivity.
Qed.

Theorem get_ref d i : lwf d -> indexable_l d = true ->
  (forall e v, get_s d i = Some (e, v) -> nth_error (lref d) i = Some v) /\
  (i < length (lref d) -> exists e v, get_s d i = Some (e, v)) /\
  (length (lref d) <= i -> get_s d i = None).
Proof.
  intros W X. pose proof (get_s_val d W X i) as G. repeat split.
  - intros e v E. rewrite E in G. simpl in G. auto.
  - intros H. destruct (get_s d i) as [[e v]|]; eauto.
    simpl in G. symmetry in G. apply nth_error_None in G. lia.
  - intros H. destruct (get_s d i) as [[e v]|]; auto.
    simpl in G. symmetry in G. assert (nth_error (lref d) i <> None) by congruence.
    apply nth_error_Some in H0. lia.
Qed.

Lemma filter_segs_values id p pend l : map snd (fst (filter_segs id p pend l)) = filter p (map snd l).
Proof.
  revert pend. induction l as [|[e v] r IH]; intros pend; simpl; auto.
  destruct (p v).
  - specialize (IH []). destruct (filter_segs id p [] r) as [o f]. simpl in *. now rewrite IH.
  - apply IH.
Qed.

Lemma batch_segs_values id n ce cv l fin fuel : 1 <= n -> length cv < n -> length cv + length l <= fuel ->
  map snd (fst (batch_segs id n ce cv l fin)) = chunk fuel n (cv ++ map snd l).
Proof.
  intros Hn. revert ce cv fuel. induction l as [|[e v] r IH]; intros ce cv fuel Hc Hf; simpl.
  - rewrite app_nil_r. destruct cv as [|x cv]; simpl.
    + destruct fuel; reflexivity.
    + destruct fuel as [|fuel]; [simpl in *; lia|]. cbn [chunk].
      rewrite firstn_all2, skipn_all2 by lia. destruct fuel; reflexivity.
  - destruct (Nat.leb_spec n (S (length cv))).
    + specialize (IH [] [] (pred fuel)). destruct (batch_segs id n [] [] r fin) as [o f]. simpl in *.
      rewrite IH by lia. destruct fuel as [|fuel]; [lia|]. cbn [chunk pred].
      destruct (cv ++ v :: map snd r) eqn:E; [destruct cv; discriminate|]. rewrite <- E.
      rewrite firstn_app, skipn_app. replace (n - length cv) with 1 by lia.
      rewrite firstn_all2, skipn_all2 by lia. reflexivity.
    + rewrite (IH (ce ++ e) (cv ++ [v]) fuel) by (rewrite ?app_length; simpl in *; lia).
      now rewrite <- app_assoc.
Qed.

Lemma spread_values id e b : map snd (spread id e b) = b.
Proof. revert e. induction b; intros e; simpl; auto. now rewrite IHb. Qed.

Lemma unbatch_segs_values id pend l : map snd (fst (unbatch_segs id pend l)) = flat_map elems (map snd l).
Proof.
  revert pend. induction l as [|[e v] r IH]; intros pend; simpl; auto.
  destruct (elems v) as [|x b] eqn:E.
  - apply IH.
  - specialize (IH []). destruct (unbatch_segs id [] r) as [o f]. cbn [fst snd] in *.
    simpl. rewrite map_app, spread_values. do 2 f_equal. exact IH.
Qed.

Lemma zip_segs_values id la lb fa fb :
  map snd (fst (zip_segs id la lb fa fb)) = map (fun p => VTup [fst p; snd p]) (combine (map snd la) (map snd lb)).
Proof.
  revert lb. induction la as [|[ea va] ra IH]; intros lb; simpl; auto.
  destruct lb as [|[eb vb] rb]; simpl; auto.
  specialize (IH rb). destruct (zip_segs id ra rb fa fb) as [o f]. simpl in *. now rewrite IH.
Qed.

Lemma slice_segs_values id d idx : lwf d -> indexable_l d = true -> Forall (fun i => i < length (lref d)) idx ->
  map snd (slice_segs id (get_s d) idx) =
  flat_map (fun i => match nth_error (lref d) i with Some v => [v] | None => [] end) idx.
Proof.
  intros W X H. induction H as [|j r Hj Hr IH]; simpl; auto.
  pose proof (get_s_val d W X j) as G. destruct (get_s d j) as [[e v]|]; simpl in G.
  - rewrite <- G. simpl. now rewrite IH.
  - symmetry in G. apply nth_error_None in G. lia.
Qed.

(* A1: the event-annotated iteration yields exactly the eager reference values *)
Theorem values_ref d : lwf d -> values (iter_s d) = lref d.
Proof.
  unfold values.
  induction d as [id vs|id f d IH|id p d IH|id n d IH|id d IH|id a IHa b IHb|id a IHa b IHb|id idx d IH];
    simpl; intros W.
  - rewrite map_map. simpl. apply map_id.
  - specialize (IH W). destruct (iter_s d) as [l fin]. simpl in *. rewrite map_map. simpl.
    rewrite <- IH, map_map. reflexivity.
  - specialize (IH W). destruct (iter_s d) as [l fin]. simpl in *.
    pose proof (filter_segs_values id p [] l) as F. destruct (filter_segs id p [] l) as [o pend]. simpl in *.
    now rewrite F, IH.
  - destruct W as [Hn W]. specialize (IH W). destruct (iter_s d) as [l fin]. simpl in *.
    rewrite (batch_segs_values id (Nat.max n 1) [] [] l fin (length (lref d))); simpl; try lia.
    + now rewrite IH.
    + rewrite <- IH, map_length. apply le_n.
  - destruct W as [W _]. specialize (IH W). destruct (iter_s d) as [l fin]. simpl in *.
    pose proof (unbatch_segs_values id [] l) as F. destruct (unbatch_segs id [] l) as [o pend]. simpl in *.
    now rewrite F, IH.
  - destruct W as [Wa Wb]. specialize (IHa Wa). specialize (IHb Wb).
    destruct (iter_s a) as [la fa], (iter_s b) as [lb fb]. simpl in *. rewrite <- IHa, <- IHb.
    destruct lb as [|[e v] r]; simpl.
    + rewrite map_map, app_nil_r. reflexivity.
    + rewrite map_app. simpl. rewrite !map_map. reflexivity.
  - destruct W as (Wa & Wb & _). specialize (IHa Wa). specialize (IHb Wb).
    destruct (iter_s a) as [la fa], (iter_s b) as [lb fb]. simpl in *.
    now rewrite zip_segs_values, IHa, IHb.
  - destruct W as (W & X & R). now apply slice_segs_values.
Qed.

Lemma length_iter d : lwf d -> length (fst (iter_s d)) = length (lref d).
Proof. intros W. rewrite <- (values_ref d W). unfold values. now rewrite map_length. Qed.

(* ------------------------------------------------------------------------------------------------ *)
(* which events can occur: a property P of events that holds for the events a stage generates itself is preserved
   by that stage *)

Definition segP (P : ev -> Prop) (s : seg) : Prop := Forall P (fst s).
Definition stream_all (P : ev -> Prop) (s : stream) : Prop := Forall (segP P) (fst s) /\ Forall P (snd s).

Ltac fa := repeat (apply Forall_app; split); repeat (apply Forall_cons); try apply Forall_nil; auto.

Lemma stream_all_upto P s k : stream_all P s -> Forall P (events_upto k s).
Proof.
  intros [H _]. unfold events_upto. revert k. induction H as [|[e v] l He Hl IH]; intros k.
  - rewrite firstn_nil. constructor.
  - destruct k; simpl; [constructor|]. apply Forall_app; split; [exact He|apply IH].
Qed.
Lemma stream_all_all P s : stream_all P s -> Forall P (all_events s).
Proof.
  intros [H F]. unfold all_events. apply Forall_app; split; auto.
  clear F. induction H as [|[e v] l He Hl IH]; simpl; [constructor|]. apply Forall_app; split; auto.
Qed.

Section Preserve.
  Variable P : ev -> Prop.
  Variable id : nat.
  Hypothesis Pf : P (Fetch id).

  Lemma filter_segs_P p pend l : (forall v, P (App id v)) -> Forall P pend -> Forall (segP P) l ->
    stream_all P (filter_segs id p pend l).
  Proof.
    intros Pa Hp Hl. revert pend Hp. induction Hl as [|[e v] r He Hr IH]; intros pend Hp; simpl.
    - split; simpl; auto.
    - unfold segP in He; simpl in He. destruct (p v).
      + specialize (IH [] (Forall_nil _)). destruct (filter_segs id p [] r) as [o f].
        destruct IH as [IH1 IH2]. split; simpl in *; auto. constructor; auto. unfold segP; simpl. fa.
      + apply IH. fa.
  Qed.

  Lemma batch_segs_P n ce cv l fin : Forall P ce -> Forall (segP P) l -> Forall P fin ->
    stream_all P (batch_segs id n ce cv l fin).
  Proof.
    intros Hc Hl Hfin. revert ce cv Hc. induction Hl as [|[e v] r He Hr IH]; intros ce cv Hc; simpl.
    - destruct cv; split; simpl; auto.
      + fa.
      + constructor; auto. unfold segP; simpl. fa.
    - unfold segP in He; simpl in He. destruct (n <=? S (length cv)).
      + specialize (IH [] [] (Forall_nil _)). destruct (batch_segs id n [] [] r fin) as [o f].
        destruct IH as [IH1 IH2]. split; simpl in *; auto. constructor; auto. unfold segP; simpl. fa.
      + apply IH. fa.
  Qed.

  Lemma spread_P e b : Forall P e -> Forall (segP P) (spread id e b).
  Proof.
    revert e. induction b as [|x b IH]; intros e He; simpl; constructor.
    - unfold segP; simpl. fa.
    - apply IH. constructor.
  Qed.

  Lemma unbatch_segs_P pend l : Forall P pend -> Forall (segP P) l -> stream_all P (unbatch_segs id pend l).
  Proof.
    intros Hp Hl. revert pend Hp. induction Hl as [|[e v] r He Hr IH]; intros pend Hp; simpl.
    - split; simpl; auto.
    - unfold segP in He; simpl in He. destruct (elems v) as [|x b].
      + apply IH. fa.
      + specialize (IH [] (Forall_nil _)). destruct (unbatch_segs id [] r) as [o f].
        destruct IH as [IH1 IH2]. split; simpl in *; auto. constructor.
        * unfold segP; simpl. fa.
        * apply Forall_app; split; auto. apply spread_P. constructor.
  Qed.

  Lemma zip_segs_P la lb fa' fb : Forall (segP P) la -> Forall (segP P) lb -> Forall P fa' -> Forall P fb ->
    stream_all P (zip_segs id la lb fa' fb).
  Proof.
    intros Ha Hb Hfa Hfb. revert lb Hb. induction Ha as [|[ea va] ra Hea Hra IH]; intros lb Hb; simpl.
    - split; simpl; auto.
    - unfold segP in Hea; simpl in Hea. destruct Hb as [|[eb vb] rb Heb Hrb].
      + split; simpl; auto. fa.
      + unfold segP in Heb; simpl in Heb. specialize (IH rb Hrb). destruct (zip_segs id ra rb fa' fb) as [o f].
        destruct IH as [IH1 IH2]. split; simpl in *; auto. constructor; auto. unfold segP; simpl. fa.
  Qed.

  Lemma slice_segs_P get idx : (forall i e v, get i = Some (e, v) -> Forall P e) ->
    Forall (segP P) (slice_segs id get idx).
  Proof.
    intros G. induction idx as [|i r IH]; simpl; [constructor|].
    destruct (get i) as [[e v]|] eqn:E; constructor; auto. unfold segP; simpl. fa. eauto.
  Qed.

  Lemma tag_fetch_P l : Forall (segP P) l -> Forall (segP P) (map (tag_fetch id) l).
  Proof.
    induction 1 as [|[e v] r He Hr IH]; simpl; constructor; auto. unfold segP in *; simpl in *. fa.
  Qed.

  Lemma batch_get_P get fails start k first es vs :
    (forall i e v, get i = Some (e, v) -> Forall P e) -> Forall P fails ->
    batch_get get fails start k first = Some (es, vs) -> Forall P es.
  Proof.
    intros G F. revert start first es vs. induction k as [|k IH]; intros start first es vs; simpl.
    - intros H; inversion H. constructor.
    - destruct (get start) as [[e v]|] eqn:E.
      + destruct (batch_get get fails (S start) k false) as [[es' vs']|] eqn:E'; [|discriminate].
        intros H; inversion H; subst. fa; eauto.
      + destruct first; [discriminate|].
        destruct (batch_get get fails (S start) k false) as [[es' vs']|] eqn:E'; [|discriminate].
        intros H; inversion H; subst. fa; eauto.
  Qed.
End Preserve.

(* P holds for the Fetch and App events of every stage of d *)
Definition Pok (P : ev -> Prop) (d : lds) : Prop :=
  forall i, In i (ids_of d) -> P (Fetch i) /\ forall v, P (App i v).
Definition Pfail (P : ev -> Prop) (d : lds) : Prop := forall i, In i (ids_of d) -> P (Fail i).

Lemma Pok_sub P (d d' : lds) : incl (ids_of d') (ids_of d) -> Pok P d -> Pok P d'.
Proof. intros I H i Hi. apply H, I, Hi. Qed.
Lemma Pfail_sub P (d d' : lds) : incl (ids_of d') (ids_of d) -> Pfail P d -> Pfail P d'.
Proof. intros I H i Hi. apply H, I, Hi. Qed.

Lemma fail_path_P P d : Pfail P d -> Forall P (fail_path d).
Proof.
  induction d as [id vs|id f d IH|id p d IH|id n d IH|id d IH|id a IHa b IHb|id a IHa b IHb|id idx d IH];
    simpl; intros H; fa; try (apply H; simpl; auto).
  - apply IH. eapply Pfail_sub; [|exact H]. simpl. apply incl_tl, incl_refl.
  - apply IH. eapply Pfail_sub; [|exact H]. simpl. apply incl_tl, incl_refl.
  - apply IHa. eapply Pfail_sub; [|exact H]. simpl. apply incl_tl, incl_appl, incl_refl.
Qed.

Lemma get_s_P P d : Pok P d -> Pfail P d -> forall i e v, get_s d i = Some (e, v) -> Forall P e.
Proof.
  induction d as [id vs|id f d IH|id p d IH|id n d IH|id d IH|id a IHa b IHb|id a IHa b IHb|id idx d IH];
    simpl; intros H F i e v E; try discriminate;
    assert (Hid : P (Fetch id) /\ forall v, P (App id v)) by (apply H; simpl; auto); destruct Hid as [Hf Ha].
  - destruct (nth_error vs i); inversion E. fa.
  - destruct (get_s d i) as [[e' v']|] eqn:E'; inversion E; subst. fa.
    eapply IH; [| |exact E']; [eapply Pok_sub; [|exact H]|eapply Pfail_sub; [|exact F]]; simpl; apply incl_tl, incl_refl.
  - destruct (batch_get _ _ _ _ _) as [[es vs]|] eqn:E'; inversion E; subst. fa.
    assert (Hd : Pok P d) by (eapply Pok_sub; [|exact H]; simpl; apply incl_tl, incl_refl).
    assert (Fd : Pfail P d) by (eapply Pfail_sub; [|exact F]; simpl; apply incl_tl, incl_refl).
    eapply batch_get_P; [| |exact E']; [apply IH; auto|apply fail_path_P; auto].
  - assert (Hd : Pok P a) by (eapply Pok_sub; [|exact H]; simpl; apply incl_tl, incl_appl, incl_refl).
    assert (Fd : Pfail P a) by (eapply Pfail_sub; [|exact F]; simpl; apply incl_tl, incl_appl, incl_refl).
    assert (Hb : Pok P b) by (eapply Pok_sub; [|exact H]; simpl; apply incl_tl, incl_appr, incl_refl).
    assert (Fb : Pfail P b) by (eapply Pfail_sub; [|exact F]; simpl; apply incl_tl, incl_appr, incl_refl).
    destruct (i <? length (lref a)).
    + destruct (get_s a i) as [[e' v']|] eqn:E'; inversion E; subst. fa. eapply IHa; eauto.
    + destruct (get_s b _) as [[e' v']|] eqn:E'; inversion E; subst. fa. eapply IHb; eauto.
  - assert (Hd : Pok P a) by (eapply Pok_sub; [|exact H]; simpl; apply incl_tl, incl_appl, incl_refl).
    assert (Fd : Pfail P a) by (eapply Pfail_sub; [|exact F]; simpl; apply incl_tl, incl_appl, incl_refl).
    assert (Hb : Pok P b) by (eapply Pok_sub; [|exact H]; simpl; apply incl_tl, incl_appr, incl_refl).
    assert (Fb : Pfail P b) by (eapply Pfail_sub; [|exact F]; simpl; apply incl_tl, incl_appr, incl_refl).
    destruct (get_s a i) as [[ea va]|] eqn:Ea; [|discriminate].
    destruct (get_s b i) as [[eb vb]|] eqn:Eb; inversion E; subst. fa; [eapply IHa|eapply IHb]; eauto.
  - destruct (nth_error idx i) as [j|]; [|discriminate].
    destruct (get_s d j) as [[e' v']|] eqn:E'; inversion E; subst. fa.
    eapply IH; [| |exact E']; [eapply Pok_sub; [|exact H]|eapply Pfail_sub; [|exact F]]; simpl; apply incl_tl, incl_refl.
Qed.

Lemma iter_s_P P d : Pok P d -> (iter_only d = true \/ Pfail P d) -> stream_all P (iter_s d).
Proof.
  induction d as [id vs|id f d IH|id p d IH|id n d IH|id d IH|id a IHa b IHb|id a IHa b IHb|id idx d IH];
    simpl; intros H F;
    assert (Hid : P (Fetch id) /\ forall v, P (App id v)) by (apply H; simpl; auto); destruct Hid as [Hf Ha].
  - split; simpl; [|constructor]. induction vs; simpl; constructor; auto. unfold segP; simpl. fa.
  - assert (Hd : Pok P d) by (eapply Pok_sub; [|exact H]; simpl; apply incl_tl, incl_refl).
    assert (Fd : iter_only d = true \/ Pfail P d)
      by (destruct F as [F|F]; auto; right; eapply Pfail_sub; [|exact F]; simpl; apply incl_tl, incl_refl).
    specialize (IH Hd Fd). destruct (iter_s d) as [l fin]. destruct IH as [I1 I2]. split; simpl in *; auto.
    clear - I1 Hf Ha. induction I1 as [|[e v] r He Hr IH]; simpl; constructor; auto.
    unfold segP in *; simpl in *. fa.
  - assert (Hd : Pok P d) by (eapply Pok_sub; [|exact H]; simpl; apply incl_tl, incl_refl).
    assert (Fd : iter_only d = true \/ Pfail P d)
      by (destruct F as [F|F]; auto; right; eapply Pfail_sub; [|exact F]; simpl; apply incl_tl, incl_refl).
    specialize (IH Hd Fd). destruct (iter_s d) as [l fin]. destruct IH as [I1 I2]. simpl in *.
    pose proof (filter_segs_P P id Hf p [] l Ha (Forall_nil _) I1) as Q.
    destruct (filter_segs id p [] l) as [o pend]. destruct Q as [Q1 Q2]. split; simpl in *; auto. fa.
  - assert (Hd : Pok P d) by (eapply Pok_sub; [|exact H]; simpl; apply incl_tl, incl_refl).
    assert (Fd : iter_only d = true \/ Pfail P d)
      by (destruct F as [F|F]; auto; right; eapply Pfail_sub; [|exact F]; simpl; apply incl_tl, incl_refl).
    specialize (IH Hd Fd). destruct (iter_s d) as [l fin]. destruct IH as [I1 I2]. simpl in *.
    apply batch_segs_P; auto.
  - assert (Hd : Pok P d) by (eapply Pok_sub; [|exact H]; simpl; apply incl_tl, incl_refl).
    assert (Fd : iter_only d = true \/ Pfail P d)
      by (destruct F as [F|F]; auto; right; eapply Pfail_sub; [|exact F]; simpl; apply incl_tl, incl_refl).
    specialize (IH Hd Fd). destruct (iter_s d) as [l fin]. destruct IH as [I1 I2]. simpl in *.
    pose proof (unbatch_segs_P P id Hf [] l (Forall_nil _) I1) as Q.
    destruct (unbatch_segs id [] l) as [o pend]. destruct Q as [Q1 Q2]. split; simpl in *; auto. fa.
  - assert (Hda : Pok P a) by (eapply Pok_sub; [|exact H]; simpl; apply incl_tl, incl_appl, incl_refl).
    assert (Hdb : Pok P b) by (eapply Pok_sub; [|exact H]; simpl; apply incl_tl, incl_appr, incl_refl).
    assert (Fa : iter_only a = true \/ Pfail P a).
    { destruct F as [F|F]; [apply andb_true_iff in F; tauto|].
      right; eapply Pfail_sub; [|exact F]; simpl; apply incl_tl, incl_appl, incl_refl. }
    assert (Fb : iter_only b = true \/ Pfail P b).
    { destruct F as [F|F]; [apply andb_true_iff in F; tauto|].
      right; eapply Pfail_sub; [|exact F]; simpl; apply incl_tl, incl_appr, incl_refl. }
    specialize (IHa Hda Fa). specialize (IHb Hdb Fb).
    destruct (iter_s a) as [la fa'], (iter_s b) as [lb fb]. destruct IHa as [A1 A2], IHb as [B1 B2]. simpl in *.
    destruct lb as [|[e v] r]; split; simpl; auto.
    + apply tag_fetch_P; auto.
    + fa.
    + inversion B1; subst. unfold segP in H2; simpl in H2. apply Forall_app; split.
      * apply tag_fetch_P; auto.
      * constructor; [unfold segP; simpl; fa|apply tag_fetch_P; auto].
  - assert (Hda : Pok P a) by (eapply Pok_sub; [|exact H]; simpl; apply incl_tl, incl_appl, incl_refl).
    assert (Hdb : Pok P b) by (eapply Pok_sub; [|exact H]; simpl; apply incl_tl, incl_appr, incl_refl).
    assert (Fa : iter_only a = true \/ Pfail P a).
    { destruct F as [F|F]; [apply andb_true_iff in F; tauto|].
      right; eapply Pfail_sub; [|exact F]; simpl; apply incl_tl, incl_appl, incl_refl. }
    assert (Fb : iter_only b = true \/ Pfail P b).
    { destruct F as [F|F]; [apply andb_true_iff in F; tauto|].
      right; eapply Pfail_sub; [|exact F]; simpl; apply incl_tl, incl_appr, incl_refl. }
    specialize (IHa Hda Fa). specialize (IHb Hdb Fb).
    destruct (iter_s a) as [la fa'], (iter_s b) as [lb fb]. destruct IHa as [A1 A2], IHb as [B1 B2]. simpl in *.
    apply zip_segs_P; auto.
  - destruct F as [F|F]; [discriminate|]. split; simpl; [|constructor].
    apply slice_segs_P; auto. apply get_s_P.
    + eapply Pok_sub; [|exact H]; simpl; apply incl_tl, incl_refl.
    + eapply Pfail_sub; [|exact F]; simpl; apply incl_tl, incl_refl.
Qed.

(* no event of the stream carries an id that is not in the pipeline *)
Definition no_id (id : nat) (e : ev) : Prop := ev_id e <> id.

Lemma iter_s_no_id id d : ~ In id (ids_of d) -> stream_all (no_id id) (iter_s d).
Proof.
  intros H. apply iter_s_P.
  - intros i Hi. unfold no_id; simpl. split; [|intros _]; intros ->; auto.
  - right. intros i Hi. unfold no_id; simpl. intros ->; auto.
Qed.
Lemma get_s_no_id id d i e v : ~ In id (ids_of d) -> get_s d i = Some (e, v) -> Forall (no_id id) e.
Proof.
  intros H. apply get_s_P.
  - intros j Hj. unfold no_id; simpl. split; [|intros _]; intros ->; auto.
  - intros j Hj. unfold no_id; simpl. intros ->; auto.
Qed.

Lemma no_id_apps id l : Forall (no_id id) l -> apps_of id l = [].
Proof.
  induction 1 as [|e l He Hl IH]; simpl; auto. rewrite IH, app_nil_r.
  destruct e as [i|i a|i]; auto. unfold no_id in He; simpl in He. destruct (Nat.eqb_spec i id); auto; congruence.
Qed.
Lemma no_id_fetches id l : Forall (no_id id) l -> fetches_of id l = 0.
Proof.
  unfold fetches_of. induction 1 as [|e l He Hl IH]; simpl; auto.
  destruct e as [i|i a|i]; auto. unfold no_id in He; simpl in He. destruct (Nat.eqb_spec i id); auto; congruence.
Qed.
Lemma no_id_drop id l : Forall (no_id id) l -> drop id l = l.
Proof.
  unfold drop. induction 1 as [|e l He Hl IH]; simpl; auto. unfold no_id in He.
  destruct (Nat.eqb_spec (ev_id e) id); [congruence|]. simpl. now rewrite IH.
Qed.

(* ------------------------------------------------------------------------------------------------ *)
(* B1/B2: map *)

Definition map_seg (id : nat) (f : val -> val) (s : seg) : seg := (fst s ++ [App id (snd s); Fetch id], f (snd s)).

Lemma iter_s_map id f d : iter_s (LMap id f d) = (map (map_seg id f) (fst (iter_s d)), snd (iter_s d)).
Proof. simpl. destruct (iter_s d). reflexivity. Qed.

Lemma apps_of_own id v : apps_of id [App id v; Fetch id] = [v].
Proof. simpl. now rewrite Nat.eqb_refl. Qed.
Lemma apps_of_own1 id v : apps_of id [App id v] = [v].
Proof. simpl. now rewrite Nat.eqb_refl. Qed.

Lemma map_upto_apps id f l k fin : Forall (segP (no_id id)) l ->
  apps_of id (events_upto k (map (map_seg id f) l, fin)) = firstn k (map snd l).
Proof.
  intros H. revert k. induction H as [|[e v] r He Hr IH]; intros k.
  - simpl. now rewrite events_upto_nil, firstn_nil.
  - destruct k; auto. cbn [map]. rewrite events_upto_cons. unfold map_seg at 1. cbn [fst snd].
    rewrite !apps_of_app, apps_of_own, IH. rewrite (no_id_apps id e He). reflexivity.
Qed.

Lemma map_all_apps id f l fin : Forall (segP (no_id id)) l -> Forall (no_id id) fin ->
  apps_of id (all_events (map (map_seg id f) l, fin)) = map snd l.
Proof.
  intros H Hf. induction H as [|[e v] r He Hr IH].
  - simpl. rewrite all_events_nil. now apply no_id_apps.
  - cbn [map]. rewrite all_events_cons. unfold map_seg at 1. cbn [fst snd].
    rewrite !apps_of_app, apps_of_own, IH. rewrite (no_id_apps id e He). reflexivity.
Qed.

(* consuming k results applies the mapped function to exactly the first k input examples, in order, once each *)
Theorem map_demand_values id f d k : ~ In id (ids_of d) ->
  apps_of id (events_upto k (iter_s (LMap id f d))) = firstn k (values (iter_s d)).
Proof.
  intros H. rewrite iter_s_map. apply map_upto_apps. apply (iter_s_no_id id d H).
Qed.
Theorem map_demand id f d k : ~ In id (ids_of d) -> lwf d ->
  apps_of id (events_upto k (iter_s (LMap id f d))) = firstn k (lref d).
Proof. intros H W. rewrite map_demand_values by assumption. now rewrite values_ref. Qed.
Theorem map_all id f d : ~ In id (ids_of d) -> lwf d ->
  apps_of id (all_events (iter_s (LMap id f d))) = lref d.
Proof.
  intros H W. rewrite iter_s_map, <- (values_ref d W).
  destruct (iter_s_no_id id d H) as [H1 H2]. now apply map_all_apps.
Qed.

Lemma map_upto_drop id f l k fin :
  drop id (events_upto k (map (map_seg id f) l, fin)) = drop id (events_upto k (l, fin)).
Proof.
  revert k. induction l as [|[e v] r IH]; intros k; auto.
  destruct k; auto. cbn [map]. rewrite !events_upto_cons. unfold map_seg at 1. cbn [fst snd].
  rewrite !drop_app, drop_app_fetch, IH. now rewrite app_nil_r.
Qed.
Lemma map_all_drop id f l fin :
  drop id (all_events (map (map_seg id f) l, fin)) = drop id (all_events (l, fin)).
Proof.
  induction l as [|[e v] r IH]; auto.
  cbn [map]. rewrite !all_events_cons. unfold map_seg at 1. cbn [fst snd].
  rewrite !drop_app, drop_app_fetch, IH. now rewrite app_nil_r.
Qed.

(* a map pulls exactly k elements from its input to deliver k results; what happens below is unchanged, event by event *)
Theorem map_upstream_events id f d k :
  drop id (events_upto k (iter_s (LMap id f d))) = drop id (events_upto k (iter_s d)).
Proof. rewrite iter_s_map, map_upto_drop. now destruct (iter_s d). Qed.
Theorem map_upstream_events_all id f d :
  drop id (all_events (iter_s (LMap id f d))) = drop id (all_events (iter_s d)).
Proof. rewrite iter_s_map, map_all_drop. now destruct (iter_s d). Qed.

Theorem map_upstream_transparent id f d k id' : id' <> id ->
  apps_of id' (events_upto k (iter_s (LMap id f d))) = apps_of id' (events_upto k (iter_s d)).
Proof.
  intros H. rewrite <- (apps_of_drop id' id _ H), map_upstream_events. now apply apps_of_drop.
Qed.
Theorem map_upstream_transparent_all id f d id' : id' <> id ->
  apps_of id' (all_events (iter_s (LMap id f d))) = apps_of id' (all_events (iter_s d)).
Proof.
  intros H. rewrite <- (apps_of_drop id' id _ H), map_upstream_events_all. now apply apps_of_drop.
Qed.

(* ------------------------------------------------------------------------------------------------ *)
(* C1: iteration never records a failed fetch *)

Definition nofail (e : ev) : Prop := match e with Fail _ => False | _ => True end.

Lemma nofail_fails id l : Forall nofail l -> fails_of id l = 0.
Proof.
  unfold fails_of. induction 1 as [|e l He Hl IH]; simpl; auto. destruct e; simpl in *; auto. contradiction.
Qed.

Theorem no_fail_in_iteration d : iter_only d = true -> forall id, fails_of id (all_events (iter_s d)) = 0.
Proof.
  intros H id. apply nofail_fails, stream_all_all, iter_s_P; auto.
  intros i _. simpl. auto.
Qed.
(* ... nor does any prefix of it *)
Theorem no_fail_in_iteration_upto d k : iter_only d = true -> forall id, fails_of id (events_upto k (iter_s d)) = 0.
Proof.
  intros H id. apply nofail_fails, stream_all_upto, iter_s_P; auto.
  intros i _. simpl. auto.
Qed.

(* ------------------------------------------------------------------------------------------------ *)
(* B3: filter *)

Lemma all_events_snd_app l f g : all_events (l, f ++ g) = all_events (l, f) ++ g.
Proof. unfold all_events. simpl. now rewrite app_assoc. Qed.

Lemma iter_s_filter id p d :
  iter_s (LFilter id p d) =
  (fst (filter_segs id p [] (fst (iter_s d))), snd (filter_segs id p [] (fst (iter_s d))) ++ snd (iter_s d)).
Proof. simpl. destruct (iter_s d) as [l fin]. simpl. destruct (filter_segs id p [] l). reflexivity. Qed.

Lemma upto_kth_pass_0 p l : upto_kth_pass p 0 l = [].
Proof. destruct l; reflexivity. Qed.

Lemma upto_kth_pass_all p k l : length (filter p l) < k -> upto_kth_pass p k l = l.
Proof.
  revert k. induction l as [|x r IH]; intros k H; simpl in *; auto.
  destruct k as [|k]; [lia|]. f_equal. destruct (p x); simpl in H; apply IH; lia.
Qed.

Lemma filter_upto_apps id p pend l k : Forall (segP (no_id id)) l -> 1 <= k <= length (filter p (map snd l)) ->
  apps_of id (events_upto k (filter_segs id p pend l)) = apps_of id pend ++ upto_kth_pass p k (map snd l).
Proof.
  intros H. revert k pend. induction H as [|[e v] r He Hr IH]; intros k pend Hk; simpl in Hk |- *.
  - lia.
  - destruct k as [|k]; [lia|]. destruct (p v) eqn:Pv.
    + specialize (IH k []). destruct (filter_segs id p [] r) as [o f].
      rewrite events_upto_cons. cbn [fst]. rewrite !apps_of_app, apps_of_own, (no_id_apps id e He).
      simpl in Hk. destruct k as [|k].
      * rewrite events_upto_0, upto_kth_pass_0. simpl. now rewrite app_nil_r.
      * rewrite IH by lia. simpl. now rewrite <- app_assoc.
    + rewrite IH by lia. rewrite !apps_of_app, apps_of_own1, (no_id_apps id e He). simpl.
      now rewrite <- app_assoc.
Qed.

Lemma filter_all_apps id p pend l : Forall (segP (no_id id)) l ->
  apps_of id (all_events (filter_segs id p pend l)) = apps_of id pend ++ map snd l.
Proof.
  intros H. revert pend. induction H as [|[e v] r He Hr IH]; intros pend; simpl.
  - rewrite all_events_nil. now rewrite app_nil_r.
  - destruct (p v).
    + specialize (IH []). destruct (filter_segs id p [] r) as [o f].
      rewrite all_events_cons. cbn [fst]. rewrite !apps_of_app, apps_of_own, (no_id_apps id e He), IH.
      simpl. now rewrite <- app_assoc.
    + rewrite IH. rewrite !apps_of_app, apps_of_own1, (no_id_apps id e He). simpl. now rewrite <- app_assoc.
Qed.

Lemma filter_all_drop id p pend l :
  drop id (all_events (filter_segs id p pend l)) = drop id pend ++ drop id (all_events (l, [])).
Proof.
  revert pend. induction l as [|[e v] r IH]; intros pend; simpl.
  - rewrite !all_events_nil. simpl. now rewrite app_nil_r.
  - rewrite (all_events_cons (e, v)). cbn [fst]. destruct (p v).
    + specialize (IH []). destruct (filter_segs id p [] r) as [o f].
      rewrite all_events_cons. cbn [fst]. rewrite !drop_app, drop_app_fetch, IH, drop_nil, app_nil_r.
      simpl. now rewrite app_assoc.
    + rewrite IH. rewrite !drop_app, drop_app1, app_nil_r. now rewrite app_assoc.
Qed.

(* the events below a filter while it delivers its first k results are exactly the events of pulling the shortest
   input prefix that contains k passing examples *)
Lemma filter_upto_drop id p pend l k fin : 1 <= k <= length (filter p (map snd l)) ->
  drop id (events_upto k (filter_segs id p pend l)) =
  drop id pend ++ drop id (events_upto (length (upto_kth_pass p k (map snd l))) (l, fin)).
Proof.
  revert k pend. induction l as [|[e v] r IH]; intros k pend Hk; simpl in Hk |- *.
  - lia.
  - destruct k as [|k]; [lia|]. cbn [length]. rewrite (events_upto_cons _ (e, v)). cbn [fst].
    destruct (p v) eqn:Pv.
    + specialize (IH k []). destruct (filter_segs id p [] r) as [o f].
      rewrite events_upto_cons. cbn [fst]. rewrite !drop_app, drop_app_fetch, app_nil_r.
      simpl in Hk. destruct k as [|k].
      * rewrite upto_kth_pass_0. cbn [length]. rewrite !events_upto_0, drop_nil, !app_nil_r. reflexivity.
      * rewrite IH by lia. simpl. now rewrite app_assoc.
    + rewrite IH by lia. rewrite !drop_app, drop_app1, app_nil_r. now rewrite app_assoc.
Qed.

(* asking a filter for k results applies the predicate to exactly the shortest input prefix containing k passing
   examples, in order, once each; when fewer than k pass, the (k-th) next() call ends the iteration and the predicate
   has been applied to every input example *)
Theorem filter_demand_values id p d k : ~ In id (ids_of d) ->
  apps_of id (if k <=? length (fst (iter_s (LFilter id p d)))
              then events_upto k (iter_s (LFilter id p d)) else all_events (iter_s (LFilter id p d))) =
  upto_kth_pass p k (values (iter_s d)).
Proof.
  intros H. rewrite iter_s_filter. destruct (iter_s_no_id id d H) as [H1 H2].
  unfold values. destruct (iter_s d) as [l fin]. cbn [fst snd] in *.
  pose proof (filter_segs_values id p [] l) as V.
  assert (L : length (fst (filter_segs id p [] l)) = length (filter p (map snd l)))
    by (now rewrite <- V, map_length).
  destruct (Nat.leb_spec k (length (fst (filter_segs id p [] l)))).
  - destruct k as [|k]; [now rewrite events_upto_0, upto_kth_pass_0|].
    pose proof (filter_upto_apps id p [] l (S k) H1) as Q.
    destruct (filter_segs id p [] l) as [o f]. cbn [fst snd] in *.
    unfold events_upto in *. cbn [fst] in *. rewrite Q by lia. reflexivity.
  - rewrite upto_kth_pass_all by lia.
    pose proof (filter_all_apps id p [] l H1) as Q.
    destruct (filter_segs id p [] l) as [o f]. cbn [fst snd] in *.
    rewrite all_events_snd_app, apps_of_app, Q, (no_id_apps id fin H2). now rewrite app_nil_r.
Qed.

Theorem filter_demand id p d k : ~ In id (ids_of d) -> lwf d ->
  apps_of id (if k <=? length (fst (iter_s (LFilter id p d)))
              then events_upto k (iter_s (LFilter id p d)) else all_events (iter_s (LFilter id p d))) =
  upto_kth_pass p k (lref d).
Proof. intros H W. rewrite filter_demand_values by assumption. now rewrite values_ref. Qed.

(* the statement as originally phrased holds when k results exist *)
Theorem filter_demand_le id p d k : ~ In id (ids_of d) -> lwf d -> k <= length (lref (LFilter id p d)) ->
  apps_of id (events_upto k (iter_s (LFilter id p d))) = upto_kth_pass p k (lref d).
Proof.
  intros H W K. rewrite <- (filter_demand id p d k H W).
  rewrite (length_iter (LFilter id p d) W). destruct (Nat.leb_spec k (length (lref (LFilter id p d)))); auto. lia.
Qed.

(* the predicate is applied to every input example exactly once, in order, rejected tail included *)
Theorem filter_all id p d : ~ In id (ids_of d) -> lwf d ->
  apps_of id (all_events (iter_s (LFilter id p d))) = lref d.
Proof.
  intros H W. rewrite iter_s_filter, <- (values_ref d W). destruct (iter_s_no_id id d H) as [H1 H2].
  unfold values. destruct (iter_s d) as [l fin]. cbn [fst snd] in *.
  pose proof (filter_all_apps id p [] l H1) as Q.
  destruct (filter_segs id p [] l) as [o f]. cbn [fst snd] in *.
  rewrite all_events_snd_app, apps_of_app, Q, (no_id_apps id fin H2). now rewrite app_nil_r.
Qed.

(* a full iteration of a filter is a full iteration of its input, event by event *)
Theorem filter_upstream_events_all id p d :
  drop id (all_events (iter_s (LFilter id p d))) = drop id (all_events (iter_s d)).
Proof.
  rewrite iter_s_filter. destruct (iter_s d) as [l fin]. cbn [fst snd].
  pose proof (filter_all_drop id p [] l) as Q.
  destruct (filter_segs id p [] l) as [o f]. cbn [fst snd] in *.
  rewrite all_events_snd_app, drop_app, Q, drop_nil. simpl.
  rewrite <- drop_app. f_equal. unfold all_events. simpl. now rewrite app_nil_r.
Qed.

(* to deliver k existing results a filter pulls exactly the shortest input prefix containing k passing examples *)
Theorem filter_upstream_events id p d k : lwf d -> k <= length (lref (LFilter id p d)) ->
  drop id (events_upto k (iter_s (LFilter id p d))) =
  drop id (events_upto (length (upto_kth_pass p k (lref d))) (iter_s d)).
Proof.
  intros W K. rewrite <- (values_ref d W). simpl in K. rewrite <- (values_ref d W) in K.
  rewrite iter_s_filter. unfold values in *. destruct (iter_s d) as [l fin]. cbn [fst snd] in *.
  destruct k as [|k]; [now rewrite upto_kth_pass_0, !events_upto_0|].
  pose proof (filter_upto_drop id p [] l (S k) fin) as Q.
  destruct (filter_segs id p [] l) as [o f]. cbn [fst snd] in *.
  unfold events_upto in *. cbn [fst] in *. rewrite Q by lia. reflexivity.
Qed.

(* ------------------------------------------------------------------------------------------------ *)
(* B6: random access touches only what makes up that one result *)

Theorem get_map_support id f d i e v : ~ In id (ids_of d) -> get_s (LMap id f d) i = Some (e, v) ->
  exists e' v', get_s d i = Some (e', v') /\ apps_of id e = [v'] /\ v = f v' /\
                forall id', id' <> id -> apps_of id' e = apps_of id' e'.
Proof.
  intros H E. simpl in E. destruct (get_s d i) as [[e' v']|] eqn:E'; inversion E; subst.
  exists e', v'. repeat split; auto.
  - rewrite apps_of_app, apps_of_own, (no_id_apps id e'); auto. eapply get_s_no_id; eauto.
  - intros id' Hn. rewrite apps_of_app. simpl. destruct (Nat.eqb_spec id id'); [congruence|].
    now rewrite app_nil_r.
Qed.
(* ... in fact the events are those of fetching input element i, then one application, then the hand-over *)
Theorem get_map_events id f d i :
  get_s (LMap id f d) i =
  match get_s d i with Some (e', v') => Some (e' ++ [App id v'; Fetch id], f v') | None => None end.
Proof. reflexivity. Qed.

(* a slice fetches exactly the selected input element, plus its own hand-over *)
Theorem get_slice_support id idx d i :
  get_s (LSlice id idx d) i =
  match nth_error idx i with
  | Some j => match get_s d j with Some (e, v) => Some (e ++ [Fetch id], v) | None => None end
  | None => None
  end.
Proof. reflexivity. Qed.
Theorem get_slice_support_nth id idx d i : i < length idx ->
  get_s (LSlice id idx d) i =
  match get_s d (nth i idx 0) with Some (e, v) => Some (e ++ [Fetch id], v) | None => None end.
Proof.
  intros H. simpl. destruct (nth_error idx i) as [j|] eqn:E.
  - now rewrite (nth_error_nth _ _ 0 E).
  - apply nth_error_None in E. lia.
Qed.

Lemma fail_path_apps id' d : apps_of id' (fail_path d) = [].
Proof.
  induction d; simpl; auto; rewrite apps_of_app; simpl; rewrite ?app_nil_r; auto.
Qed.

Lemma batch_get_apps id' get fails : apps_of id' fails = [] ->
  forall k start first es vs, batch_get get fails start k first = Some (es, vs) ->
  apps_of id' es =
  flat_map (fun j => match get j with Some (e', _) => apps_of id' e' | None => [] end) (seq start k).
Proof.
  intros F. induction k as [|k IH]; intros start first es vs; simpl.
  - intros H; inversion H. reflexivity.
  - destruct (get start) as [[e v]|] eqn:E.
    + destruct (batch_get get fails (S start) k false) as [[es' vs']|] eqn:E'; [|discriminate].
      intros H; inversion H; subst. rewrite apps_of_app. f_equal. eapply IH; eauto.
    + destruct first; [discriminate|].
      destruct (batch_get get fails (S start) k false) as [[es' vs']|] eqn:E'; [|discriminate].
      intros H; inversion H; subst. rewrite apps_of_app, F. simpl. eapply IH; eauto.
Qed.

Lemma flat_map_seq_shift {B} (g : nat -> list B) a n :
  flat_map g (seq a n) = flat_map (fun t => g (a + t)) (seq 0 n).
Proof.
  revert g a. induction n as [|n IH]; intros g a; simpl; auto.
  rewrite Nat.add_0_r. f_equal. rewrite (IH g (S a)), (IH (fun t => g (a + t)) 1).
  apply flat_map_ext. intros t. f_equal. lia.
Qed.

(* the applications below a batch fetched by index are those of fetching its (existing) members, in order *)
Theorem get_batch_support id n d j e v id' : 1 <= n -> get_s (LBatch id n d) j = Some (e, v) ->
  apps_of id' e =
  flat_map (fun t => match get_s d (j * n + t) with Some (e', _) => apps_of id' e' | None => [] end) (seq 0 n).
Proof.
  intros Hn E. simpl in E. replace (Nat.max n 1) with n in E by lia.
  destruct (batch_get (get_s d) (fail_path d) (j * n) n true) as [[es vs]|] eqn:E'; inversion E; subst.
  rewrite apps_of_app. simpl. rewrite app_nil_r.
  rewrite (batch_get_apps id' _ _ (fail_path_apps id' d) _ _ _ _ _ E').
  apply (flat_map_seq_shift (fun j => match get_s d j with Some (e', _) => apps_of id' e' | None => [] end)).
Qed.

(* ------------------------------------------------------------------------------------------------ *)
(* C3: every segment of the root carries exactly one Fetch of the root *)

Definition F0 (r : nat) (l : list seg) : Prop := Forall (fun sg => fetches_of r (fst sg) = 0) l.
Definition F1 (r : nat) (l : list seg) : Prop := Forall (fun sg => fetches_of r (fst sg) = 1) l.

Lemma fetches_own r : fetches_of r [Fetch r] = 1.
Proof. unfold fetches_of; simpl. now rewrite Nat.eqb_refl. Qed.
Lemma fetches_own2 r v : fetches_of r [App r v; Fetch r] = 1.
Proof. unfold fetches_of; simpl. now rewrite Nat.eqb_refl. Qed.
Lemma fetches_app1 r i v : fetches_of r [App i v] = 0.
Proof. reflexivity. Qed.
Lemma fetches_nil r : fetches_of r [] = 0.
Proof. reflexivity. Qed.

Lemma no_id_F0 r l : Forall (segP (no_id r)) l -> F0 r l.
Proof. induction 1 as [|[e v] l He Hl IH]; constructor; auto. simpl. now apply no_id_fetches. Qed.

Ltac fsimp := rewrite ?fetches_of_app, ?fetches_own, ?fetches_own2, ?fetches_app1, ?fetches_nil.

Lemma filter_segs_F1 r p pend l : fetches_of r pend = 0 -> F0 r l ->
  F1 r (fst (filter_segs r p pend l)) /\ fetches_of r (snd (filter_segs r p pend l)) = 0.
Proof.
  intros Hp Hl. revert pend Hp. induction Hl as [|[e v] l He Hl IH]; intros pend Hp; simpl in *.
  - split; auto. constructor.
  - destruct (p v).
    + specialize (IH [] eq_refl). destruct (filter_segs r p [] l) as [o f]. simpl in *. destruct IH as [I1 I2].
      split; auto. constructor; auto. simpl. fsimp. lia.
    + apply IH. fsimp. lia.
Qed.

Lemma batch_segs_F1 r n ce cv l fin : fetches_of r ce = 0 -> F0 r l -> fetches_of r fin = 0 ->
  F1 r (fst (batch_segs r n ce cv l fin)) /\ fetches_of r (snd (batch_segs r n ce cv l fin)) = 0.
Proof.
  intros Hc Hl Hf. revert ce cv Hc. induction Hl as [|[e v] l He Hl IH]; intros ce cv Hc; simpl in *.
  - destruct cv; simpl; split; auto; try constructor; simpl; fsimp; try lia. constructor.
  - destruct (n <=? S (length cv)).
    + specialize (IH [] [] eq_refl). destruct (batch_segs r n [] [] l fin) as [o f]. simpl in *.
      destruct IH as [I1 I2]. split; auto. constructor; auto. simpl. fsimp. lia.
    + apply IH. fsimp. lia.
Qed.

Lemma spread_F1 r e b : fetches_of r e = 0 -> F1 r (spread r e b).
Proof.
  revert e. induction b as [|x b IH]; intros e He; simpl; constructor.
  - simpl. fsimp. lia.
  - apply IH. reflexivity.
Qed.

Lemma unbatch_segs_F1 r pend l : fetches_of r pend = 0 -> F0 r l ->
  F1 r (fst (unbatch_segs r pend l)) /\ fetches_of r (snd (unbatch_segs r pend l)) = 0.
Proof.
  intros Hp Hl. revert pend Hp. induction Hl as [|[e v] l He Hl IH]; intros pend Hp; simpl in *.
  - split; auto. constructor.
  - destruct (elems v) as [|x b].
    + apply IH. fsimp. lia.
    + specialize (IH [] eq_refl). destruct (unbatch_segs r [] l) as [o f]. simpl in *. destruct IH as [I1 I2].
      split; auto. constructor.
      * simpl. fsimp. lia.
      * apply Forall_app; split; auto. apply spread_F1. reflexivity.
Qed.

Lemma zip_segs_F1 r la lb fa fb : F0 r la -> F0 r lb -> fetches_of r fa = 0 -> fetches_of r fb = 0 ->
  F1 r (fst (zip_segs r la lb fa fb)) /\ fetches_of r (snd (zip_segs r la lb fa fb)) = 0.
Proof.
  intros Ha Hb Hfa Hfb. revert lb Hb. induction Ha as [|[ea va] la Hea Hla IH]; intros lb Hb; simpl in *.
  - split; auto. constructor.
  - destruct Hb as [|[eb vb] lb Heb Hlb]; simpl in *.
    + split; [constructor|]. fsimp. lia.
    + specialize (IH lb Hlb). destruct (zip_segs r la lb fa fb) as [o f]. simpl in *. destruct IH as [I1 I2].
      split; auto. constructor; auto. simpl. fsimp. lia.
Qed.

Lemma slice_segs_F1 r get idx : (forall i e v, get i = Some (e, v) -> fetches_of r e = 0) ->
  F1 r (slice_segs r get idx).
Proof.
  intros G. induction idx as [|i idx IH]; simpl; [constructor|].
  destruct (get i) as [[e v]|] eqn:E; constructor; auto. simpl. fsimp. rewrite (G _ _ _ E). reflexivity.
Qed.

Lemma tag_fetch_F1 r l : F0 r l -> F1 r (map (tag_fetch r) l).
Proof. induction 1 as [|[e v] l He Hl IH]; simpl; constructor; auto. simpl in *. fsimp. lia. Qed.

Lemma not_in_app {A} (x : A) a b : ~ In x (a ++ b) -> ~ In x a /\ ~ In x b.
Proof. intros H. split; intros I; apply H, in_or_app; auto. Qed.

Lemma root_segs d : ~ In (root_id d) (tl (ids_of d)) ->
  F1 (root_id d) (fst (iter_s d)) /\ fetches_of (root_id d) (snd (iter_s d)) = 0.
Proof.
  destruct d as [id vs|id f d|id p d|id n d|id d|id a b|id a b|id idx d]; simpl; intros H.
  - split; auto. induction vs; simpl; constructor; auto. simpl. apply fetches_own.
  - destruct (iter_s_no_id id d H) as [H1 H2]. destruct (iter_s d) as [l fin]. simpl in *.
    split; [|now apply no_id_fetches]. apply no_id_F0 in H1. clear - H1.
    induction H1 as [|[e v] l He Hl IH]; simpl; constructor; auto. simpl in *. fsimp. lia.
  - destruct (iter_s_no_id id d H) as [H1 H2]. destruct (iter_s d) as [l fin]. simpl in *.
    destruct (filter_segs_F1 id p [] l eq_refl (no_id_F0 _ _ H1)) as [Q1 Q2].
    destruct (filter_segs id p [] l) as [o pend]. simpl in *. split; auto. fsimp.
    rewrite (no_id_fetches id fin H2). lia.
  - destruct (iter_s_no_id id d H) as [H1 H2]. destruct (iter_s d) as [l fin]. simpl in *.
    apply batch_segs_F1; auto. now apply no_id_F0. now apply no_id_fetches.
  - destruct (iter_s_no_id id d H) as [H1 H2]. destruct (iter_s d) as [l fin]. simpl in *.
    destruct (unbatch_segs_F1 id [] l eq_refl (no_id_F0 _ _ H1)) as [Q1 Q2].
    destruct (unbatch_segs id [] l) as [o pend]. simpl in *. split; auto. fsimp.
    rewrite (no_id_fetches id fin H2). lia.
  - apply not_in_app in H as [Ha Hb].
    destruct (iter_s_no_id id a Ha) as [A1 A2]. destruct (iter_s_no_id id b Hb) as [B1 B2].
    destruct (iter_s a) as [la fa], (iter_s b) as [lb fb]. simpl in *.
    apply no_id_F0 in A1. apply no_id_fetches in A2, B2.
    destruct lb as [|[e v] lb]; simpl.
    + split; [now apply tag_fetch_F1|]. fsimp. lia.
    + inversion B1 as [|? ? Be Bl]; subst. apply no_id_F0 in Bl. apply no_id_fetches in Be. simpl in Be.
      split; auto. apply Forall_app; split; [now apply tag_fetch_F1|].
      constructor; [|now apply tag_fetch_F1]. simpl. fsimp. lia.
  - apply not_in_app in H as [Ha Hb].
    destruct (iter_s_no_id id a Ha) as [A1 A2]. destruct (iter_s_no_id id b Hb) as [B1 B2].
    destruct (iter_s a) as [la fa], (iter_s b) as [lb fb]. simpl in *.
    apply zip_segs_F1; auto using no_id_F0, no_id_fetches.
  - split; auto. apply slice_segs_F1. intros i e v E. apply no_id_fetches. eapply get_s_no_id; eauto.
Qed.

Lemma F1_upto r l fin k : F1 r l -> fetches_of r (events_upto k (l, fin)) = min k (length l).
Proof.
  intros H. revert k. induction H as [|s l Hs Hl IH]; intros k.
  - rewrite events_upto_nil, fetches_nil. simpl. lia.
  - destruct k; auto. rewrite events_upto_cons, fetches_of_app, IH, Hs. simpl. lia.
Qed.

(* after k next() calls the root has handed over min k (length) elements *)
Theorem fetch_count_prefix d k : lwf d -> ~ In (root_id d) (tl (ids_of d)) ->
  fetches_of (root_id d) (events_upto k (iter_s d)) = min k (length (lref d)).
Proof.
  intros W H. rewrite <- (length_iter d W). destruct (root_segs d H) as [H1 _].
  destruct (iter_s d) as [l fin]. simpl in *. now apply F1_upto.
Qed.

Theorem fetch_count_root d : lwf d -> ~ In (root_id d) (tl (ids_of d)) ->
  fetches_of (root_id d) (all_events (iter_s d)) = length (lref d).
Proof.
  intros W H. rewrite <- (events_upto_all (length (fst (iter_s d)))) by lia.
  rewrite fetches_of_app, fetch_count_prefix by assumption. destruct (root_segs d H) as [_ H2].
  rewrite H2, (length_iter d W). lia.
Qed.

(* ------------------------------------------------------------------------------------------------ *)
(* B4: batch *)

Lemma iter_s_batch id n d : 1 <= n ->
  iter_s (LBatch id n d) = batch_segs id n [] [] (fst (iter_s d)) (snd (iter_s d)).
Proof. intros H. simpl. replace (Nat.max n 1) with n by lia. now destruct (iter_s d). Qed.

Lemma batch_all_drop id n ce cv l fin :
  drop id (all_events (batch_segs id n ce cv l fin)) = drop id ce ++ drop id (all_events (l, fin)).
Proof.
  revert ce cv. induction l as [|[e v] r IH]; intros ce cv; simpl.
  - rewrite all_events_nil. destruct cv.
    + rewrite all_events_nil. apply drop_app.
    + rewrite all_events_cons, all_events_nil. cbn [fst]. rewrite app_nil_r, !drop_app, drop_fetch.
      now rewrite app_nil_r.
  - rewrite (all_events_cons (e, v)). cbn [fst]. destruct (n <=? S (length cv)).
    + specialize (IH [] []). destruct (batch_segs id n [] [] r fin) as [o f].
      rewrite all_events_cons. cbn [fst]. rewrite !drop_app, drop_fetch, IH, drop_nil. simpl.
      now rewrite app_nil_r, <- app_assoc.
    + rewrite IH, !drop_app. now rewrite <- app_assoc.
Qed.

Lemma batch_count id n ce cv l fin : 1 <= n -> length cv < n ->
  length cv + length l <= length (fst (batch_segs id n ce cv l fin)) * n.
Proof.
  intros Hn. revert ce cv. induction l as [|[e v] r IH]; intros ce cv Hc; simpl.
  - destruct cv; simpl in *; lia.
  - destruct (Nat.leb_spec n (S (length cv))).
    + specialize (IH [] [] ltac:(simpl; lia)). destruct (batch_segs id n [] [] r fin) as [o f]. simpl in *. lia.
    + specialize (IH (ce ++ e) (cv ++ [v])). rewrite app_length in IH. simpl in IH.
      specialize (IH ltac:(lia)). lia.
Qed.

Lemma batch_upto_drop id n ce cv l fin k : 1 <= n -> length cv < n ->
  1 <= k <= length (fst (batch_segs id n ce cv l fin)) ->
  drop id (events_upto k (batch_segs id n ce cv l fin)) =
  drop id ce ++ drop id (if k * n <=? length cv + length l
                         then events_upto (k * n - length cv) (l, fin) else all_events (l, fin)).
Proof.
  intros Hn. revert k ce cv. induction l as [|[e v] r IH]; intros k ce cv Hc Hk; simpl in Hk |- *.
  - destruct k as [|k]; [lia|]. destruct (Nat.leb_spec (S k * n) (length cv + 0)); [nia|].
    rewrite all_events_nil. destruct cv as [|x cv]; simpl in Hk; [lia|].
    rewrite events_upto_cons, events_upto_nil. cbn [fst]. rewrite app_nil_r, !drop_app, drop_fetch.
    now rewrite app_nil_r.
  - destruct k as [|k]; [lia|]. destruct (Nat.leb_spec n (S (length cv))).
    + specialize (IH k [] []). destruct (batch_segs id n [] [] r fin) as [o f]. cbn [fst snd length] in *.
      rewrite events_upto_cons. cbn [fst]. rewrite !drop_app, drop_fetch, app_nil_r, <- app_assoc. f_equal.
      destruct k as [|k].
      * rewrite events_upto_0, drop_nil, app_nil_r.
        destruct (Nat.leb_spec (1 * n) (length cv + S (length r))); [|lia].
        replace (1 * n - length cv) with 1 by lia. rewrite events_upto_cons, events_upto_0. cbn [fst].
        now rewrite app_nil_r.
      * rewrite IH by lia. rewrite drop_nil. cbn [app]. rewrite Nat.sub_0_r.
        destruct (Nat.leb_spec (S k * n) (0 + length r)), (Nat.leb_spec (S (S k) * n) (length cv + S (length r)));
          try nia.
        -- replace (S (S k) * n - length cv) with (S (S k * n)) by nia.
           rewrite events_upto_cons. cbn [fst]. now rewrite drop_app.
        -- rewrite all_events_cons. cbn [fst]. now rewrite drop_app.
    + rewrite IH by (rewrite ?app_length; simpl; lia). rewrite app_length. cbn [length].
      rewrite drop_app, <- app_assoc. f_equal.
      destruct (Nat.leb_spec (S k * n) (length cv + 1 + length r)), (Nat.leb_spec (S k * n) (length cv + S (length r)));
        try lia.
      * replace (S k * n - length cv) with (S (S k * n - (length cv + 1))) by nia.
        rewrite events_upto_cons. cbn [fst]. now rewrite drop_app.
      * rewrite all_events_cons. cbn [fst]. now rewrite drop_app.
Qed.

(* asking a batch stage for k batches pulls exactly k*n input elements - never more than the batch being built - or,
   when the input runs out first, everything including the input's terminating events *)
Theorem batch_demand_events id n d k : 1 <= n ->
  drop id (if k <=? length (fst (iter_s (LBatch id n d)))
           then events_upto k (iter_s (LBatch id n d)) else all_events (iter_s (LBatch id n d))) =
  drop id (if k * n <=? length (fst (iter_s d)) then events_upto (k * n) (iter_s d) else all_events (iter_s d)).
Proof.
  intros Hn. rewrite iter_s_batch by assumption. destruct (iter_s d) as [l fin]. cbn [fst snd].
  pose proof (batch_count id n [] [] l fin Hn ltac:(simpl; lia)) as C. simpl in C.
  destruct (Nat.leb_spec k (length (fst (batch_segs id n [] [] l fin)))).
  - destruct k as [|k]; [reflexivity|].
    rewrite batch_upto_drop by (simpl; lia). simpl length. rewrite drop_nil, Nat.sub_0_r. reflexivity.
  - rewrite batch_all_drop, drop_nil. destruct (Nat.leb_spec (k * n) (length l)); [nia|]. reflexivity.
Qed.

Theorem batch_demand id n d k id' : 1 <= n -> id' <> id ->
  apps_of id' (if k <=? length (fst (iter_s (LBatch id n d)))
               then events_upto k (iter_s (LBatch id n d)) else all_events (iter_s (LBatch id n d))) =
  apps_of id' (if k * n <=? length (fst (iter_s d)) then events_upto (k * n) (iter_s d) else all_events (iter_s d)).
Proof.
  intros Hn H. rewrite <- (apps_of_drop id' id _ H), batch_demand_events by assumption. now apply apps_of_drop.
Qed.

(* the statement as originally phrased holds when k batches exist *)
Theorem batch_demand_le id n d k id' : 1 <= n -> id' <> id -> k <= length (fst (iter_s (LBatch id n d))) ->
  apps_of id' (events_upto k (iter_s (LBatch id n d))) =
  apps_of id' (if k * n <=? length (fst (iter_s d)) then events_upto (k * n) (iter_s d) else all_events (iter_s d)).
Proof.
  intros Hn H K. rewrite <- (batch_demand id n d k id' Hn H).
  destruct (Nat.leb_spec k (length (fst (iter_s (LBatch id n d))))); auto. lia.
Qed.

(* the two cases separately *)
Theorem batch_demand_enough id n d k id' : 1 <= n -> id' <> id -> k * n <= length (fst (iter_s d)) ->
  apps_of id' (events_upto k (iter_s (LBatch id n d))) = apps_of id' (events_upto (k * n) (iter_s d)).
Proof.
  intros Hn H K. pose proof (batch_demand id n d k id' Hn H) as Q.
  destruct (Nat.leb_spec (k * n) (length (fst (iter_s d)))); [|lia].
  destruct (Nat.leb_spec k (length (fst (iter_s (LBatch id n d))))); auto.
  (* k beyond the number of batches contradicts k*n <= input length *)
  exfalso. rewrite iter_s_batch in H1 by assumption.
  destruct (iter_s d) as [l fin]. cbn [fst snd] in *.
  pose proof (batch_count id n [] [] l fin Hn ltac:(simpl; lia)) as C. cbn [length Nat.add] in C.
  remember (length (fst (batch_segs id n [] [] l fin))) as m.
  assert (S m * n <= k * n) by (apply Nat.mul_le_mono_r; lia). lia.
Qed.

Theorem batch_all_events id n d : 1 <= n ->
  drop id (all_events (iter_s (LBatch id n d))) = drop id (all_events (iter_s d)).
Proof.
  intros Hn. rewrite iter_s_batch by assumption. destruct (iter_s d) as [l fin]. cbn [fst snd].
  now rewrite batch_all_drop, drop_nil.
Qed.

(* ------------------------------------------------------------------------------------------------ *)
(* C2: every node hands over exactly as many elements as it yields (full iteration) *)

Lemma spread_drop r e x b : drop r (concat (map fst (spread r e (x :: b)))) = drop r e.
Proof.
  revert e x. induction b as [|y b IH]; intros e x.
  - simpl. rewrite app_nil_r, drop_app, drop_fetch. now rewrite app_nil_r.
  - change (spread r e (x :: y :: b)) with ((e ++ [Fetch r], x) :: spread r [] (y :: b)).
    cbn [map concat fst]. rewrite !drop_app, drop_fetch, IH, drop_nil. now rewrite !app_nil_r.
Qed.

Lemma all_events_app_l a o f : all_events (a ++ o, f) = concat (map fst a) ++ all_events (o, f).
Proof. unfold all_events. simpl. now rewrite map_app, concat_app, app_assoc. Qed.

Lemma unbatch_all_drop r pend l :
  drop r (all_events (unbatch_segs r pend l)) = drop r pend ++ drop r (all_events (l, [])).
Proof.
  revert pend. induction l as [|[e v] l IH]; intros pend; cbn [unbatch_segs].
  - rewrite !all_events_nil. simpl. now rewrite app_nil_r.
  - rewrite (all_events_cons (e, v)). cbn [fst]. destruct (elems v) as [|x b].
    + rewrite IH, !drop_app. now rewrite app_assoc.
    + specialize (IH []). destruct (unbatch_segs r [] l) as [o f].
      rewrite all_events_app_l, drop_app, spread_drop, IH, drop_nil, !drop_app. simpl. now rewrite app_assoc.
Qed.

Theorem unbatch_all_events id d :
  drop id (all_events (iter_s (LUnbatch id d))) = drop id (all_events (iter_s d)).
Proof.
  simpl. destruct (iter_s d) as [l fin]. pose proof (unbatch_all_drop id [] l) as Q.
  destruct (unbatch_segs id [] l) as [o f].
  rewrite all_events_snd_app, drop_app, Q, drop_nil. simpl.
  rewrite <- drop_app. f_equal. unfold all_events. simpl. now rewrite app_nil_r.
Qed.

Lemma tag_fetch_drop r l : drop r (concat (map fst (map (tag_fetch r) l))) = drop r (concat (map fst l)).
Proof.
  induction l as [|[e v] l IH]; simpl; auto. rewrite !drop_app, drop_fetch, IH. now rewrite app_nil_r.
Qed.

Theorem concat_all_events id a b :
  drop id (all_events (iter_s (LConcat id a b))) = drop id (all_events (iter_s a)) ++ drop id (all_events (iter_s b)).
Proof.
  simpl. destruct (iter_s a) as [la fa], (iter_s b) as [lb fb]. destruct lb as [|[e v] lb].
  - unfold all_events. simpl. rewrite !drop_app, tag_fetch_drop. now rewrite app_assoc.
  - unfold all_events. simpl. rewrite map_app, concat_app. simpl.
    rewrite !drop_app, !tag_fetch_drop, drop_fetch. simpl. now rewrite <- !app_assoc.
Qed.

Lemma zip_all_fetches id r la lb fa fb : id <> r -> length la = length lb ->
  fetches_of id (all_events (zip_segs r la lb fa fb)) =
  fetches_of id (all_events (la, fa)) + fetches_of id (all_events (lb, [])).
Proof.
  intros H. revert lb. induction la as [|[ea va] la IH]; intros lb L; destruct lb as [|[eb vb] lb];
    simpl in L; try discriminate.
  - simpl. rewrite !all_events_nil. rewrite fetches_nil. lia.
  - simpl. specialize (IH lb ltac:(lia)). destruct (zip_segs r la lb fa fb) as [o f].
    rewrite !all_events_cons. cbn [fst]. rewrite !fetches_of_app, IH.
    assert (fetches_of id [Fetch r] = 0).
    { unfold fetches_of. simpl. destruct (Nat.eqb_spec r id); [congruence|reflexivity]. }
    lia.
Qed.

Lemma batch_segs_fin_nil id n ce cv l : (cv = [] -> ce = []) -> snd (batch_segs id n ce cv l []) = [].
Proof.
  revert ce cv. induction l as [|[e v] l IH]; intros ce cv H; simpl.
  - destruct cv; simpl; auto. rewrite H; auto.
  - destruct (n <=? S (length cv)).
    + specialize (IH [] [] (fun _ => eq_refl)). destruct (batch_segs id n [] [] l []) as [o f]. exact IH.
    + apply IH. intros E. destruct cv; discriminate.
Qed.

Lemma zip_segs_fin_nil id la lb fb : length la = length lb -> snd (zip_segs id la lb [] fb) = [].
Proof.
  revert lb. induction la as [|[ea va] la IH]; intros lb L; destruct lb as [|[eb vb] lb];
    simpl in L; try discriminate; simpl; auto.
  specialize (IH lb ltac:(lia)). destruct (zip_segs id la lb [] fb) as [o f]. exact IH.
Qed.

(* a pipeline with a length has nothing left to do in its terminating next() call *)
Lemma indexable_fin d : lwf d -> indexable_l d = true -> snd (iter_s d) = [].
Proof.
  induction d as [id vs|id f d IH|id p d IH|id n d IH|id d IH|id a IHa b IHb|id a IHa b IHb|id idx d IH];
    simpl; intros W X; try discriminate; auto.
  - specialize (IH W X). destruct (iter_s d) as [l fin]. exact IH.
  - destruct W as [Hn W]. specialize (IH W X). destruct (iter_s d) as [l fin]. simpl in IH. subst.
    now apply batch_segs_fin_nil.
  - destruct W as [Wa Wb]. apply andb_true_iff in X as [Xa Xb]. specialize (IHa Wa Xa). specialize (IHb Wb Xb).
    destruct (iter_s a) as [la fa], (iter_s b) as [lb fb]. simpl in *. subst.
    destruct lb as [|[e v] lb]; reflexivity.
  - destruct W as (Wa & Wb & L & _). apply andb_true_iff in X as [Xa Xb].
    specialize (IHa Wa Xa). specialize (IHb Wb Xb).
    rewrite <- (length_iter a Wa), <- (length_iter b Wb) in L.
    destruct (iter_s a) as [la fa], (iter_s b) as [lb fb]. simpl in *. subst.
    now apply zip_segs_fin_nil.
Qed.

Lemma sub_in id d d' : sub id d = Some d' -> In id (ids_of d).
Proof.
  induction d as [i vs|i f d IH|i p d IH|i n d IH|i d IH|i a IHa b IHb|i a IHa b IHb|i idx d IH];
    simpl; destruct (Nat.eqb_spec i id); auto; intros H; try discriminate; try (right; auto; fail).
  - right. apply in_or_app. destruct (sub id a); auto.
  - right. apply in_or_app. destruct (sub id a); auto.
Qed.

Lemma sub_root id d d' : sub id d = Some d' -> root_id d' = id.
Proof.
  induction d as [i vs|i f d IH|i p d IH|i n d IH|i d IH|i a IHa b IHb|i a IHa b IHb|i idx d IH];
    simpl; destruct (Nat.eqb_spec i id); intros H; try discriminate; auto;
    try (inversion H; subst; reflexivity).
  all: destruct (sub id a) eqn:E; auto.
Qed.

Lemma NoDup_app_inv {A} (a b : list A) :
  NoDup (a ++ b) -> NoDup a /\ NoDup b /\ forall x, In x a -> ~ In x b.
Proof.
  induction a as [|y a IH]; simpl; intros H.
  - repeat split; auto. constructor.
  - inversion H as [|? ? Hy Hn]; subst. destruct (IH Hn) as (Na & Nb & D).
    repeat split; auto.
    + constructor; auto. intros I. apply Hy, in_or_app. auto.
    + intros x [->|I]; auto. intros Ib. apply Hy, in_or_app. auto.
Qed.

Lemma fresh_fetches id d : ~ In id (ids_of d) -> fetches_of id (all_events (iter_s d)) = 0.
Proof. intros H. apply no_id_fetches, stream_all_all, iter_s_no_id, H. Qed.

Theorem fetch_count_full d : forall id d', lwf d -> iter_only d = true -> NoDup (ids_of d) -> sub id d = Some d' ->
  fetches_of id (all_events (iter_s d)) = length (lref d').
Proof.
  induction d as [i vs|i f d IH|i p d IH|i n d IH|i d IH|i a IHa b IHb|i a IHa b IHb|i idx d IH];
    intros id d' W I N S;
    (destruct (Nat.eq_dec i id) as [->|Hne];
     [ simpl in S; rewrite Nat.eqb_refl in S; inversion S; subst;
       apply (fetch_count_root _ W); simpl; inversion N; auto
     | simpl in S; destruct (Nat.eqb_spec i id); [congruence|] ]);
    try discriminate; simpl in W, I, N; inversion N as [|? ? Hi Nd]; subst.
  - rewrite <- (fetches_of_drop id i) by auto. rewrite map_upstream_events_all.
    rewrite fetches_of_drop by auto. apply IH; auto.
  - rewrite <- (fetches_of_drop id i) by auto. rewrite filter_upstream_events_all.
    rewrite fetches_of_drop by auto. apply IH; auto.
  - destruct W as [Hn W]. rewrite <- (fetches_of_drop id i) by auto. rewrite batch_all_events by auto.
    rewrite fetches_of_drop by auto. apply IH; auto.
  - destruct W as [W _]. rewrite <- (fetches_of_drop id i) by auto. rewrite unbatch_all_events.
    rewrite fetches_of_drop by auto. apply IH; auto.
  - destruct W as [Wa Wb]. apply andb_true_iff in I as [Ia Ib].
    destruct (NoDup_app_inv _ _ Nd) as (Na & Nb & D).
    rewrite <- (fetches_of_drop id i) by auto. rewrite concat_all_events, fetches_of_app.
    rewrite !fetches_of_drop by auto.
    destruct (sub id a) as [x|] eqn:Sa.
    + inversion S; subst. rewrite (IHa id d' Wa Ia Na Sa).
      rewrite (fresh_fetches id b); [lia|]. apply D. eapply sub_in; eauto.
    + rewrite (IHb id d' Wb Ib Nb S). rewrite (fresh_fetches id a); [lia|].
      intros Ha. apply (D id Ha). eapply sub_in; eauto.
  - destruct W as (Wa & Wb & L & Xa & Xb). apply andb_true_iff in I as [Ia Ib].
    destruct (NoDup_app_inv _ _ Nd) as (Na & Nb & D).
    assert (Q : fetches_of id (all_events (iter_s (LZip i a b))) =
                fetches_of id (all_events (iter_s a)) + fetches_of id (all_events (iter_s b))).
    { simpl. pose proof (indexable_fin b Wb Xb) as Fb.
      rewrite <- (length_iter a Wa), <- (length_iter b Wb) in L.
      destruct (iter_s a) as [la fa], (iter_s b) as [lb fb]. simpl in *. subst fb.
      apply zip_all_fetches; auto. }
    rewrite Q.
    destruct (sub id a) as [x|] eqn:Sa.
    + inversion S; subst. rewrite (IHa id d' Wa Ia Na Sa).
      rewrite (fresh_fetches id b); [lia|]. apply D. eapply sub_in; eauto.
    + rewrite (IHb id d' Wb Ib Nb S). rewrite (fresh_fetches id a); [lia|].
      intros Ha. apply (D id Ha). eapply sub_in; eauto.
Qed.

(* ------------------------------------------------------------------------------------------------ *)
(* why some statements differ from their first phrasing: counterexamples *)
Module Counterexamples.
  Definition a := VInt 1. Definition b := VInt 2. Definition c := VInt 3.
  Definition is1 (v : val) : bool := match v with VInt 1%Z => true | _ => false end.

  (* map_demand needs lwf: an out-of-range slice index ends the iteration but is skipped by lref *)
  Definition d1 := LSlice 1 [5; 0] (LSrc 0 [a]).
  Example map_demand_needs_lwf :
    apps_of 2 (events_upto 1 (iter_s (LMap 2 (fun v => v) d1))) = [] /\ firstn 1 (lref d1) = [a].
  Proof. split; reflexivity. Qed.

  (* filter_demand: events_upto k only holds the events of next() calls that returned an element; with fewer than
     k passing examples the rejected tail is examined in the terminating call *)
  Definition d3 := LSrc 0 [a; b].
  Example filter_demand_needs_termination :
    apps_of 1 (events_upto 2 (iter_s (LFilter 1 is1 d3))) = [a] /\ upto_kth_pass is1 2 (lref d3) = [a; b].
  Proof. split; reflexivity. Qed.

  (* batch_demand: same effect when the input length is a multiple of n and k exceeds the number of batches *)
  Definition d4 := LFilter 1 is1 (LSrc 0 [a; b]).
  Example batch_demand_needs_termination :
    apps_of 1 (events_upto 2 (iter_s (LBatch 2 1 d4))) = [a] /\
    apps_of 1 (if 2 * 1 <=? length (fst (iter_s d4)) then events_upto (2 * 1) (iter_s d4) else all_events (iter_s d4))
    = [a; b].
  Proof. split; reflexivity. Qed.

  (* fetch_count_full: zip never makes the terminating next() call on its second input, so a filter there is not
     drained; hence lwf demands indexable zip inputs (zip needs their len() anyway) *)
  Definition d5 := LZip 3 (LSrc 2 [c]) (LFilter 1 is1 (LSrc 0 [a; b])).
  Example zip_over_filter_not_drained :
    fetches_of 0 (all_events (iter_s d5)) = 1 /\ length (lref (LSrc 0 [a; b])) = 2 /\
    length (lref (LSrc 2 [c])) = length (lref (LFilter 1 is1 (LSrc 0 [a; b]))).
  Proof. repeat split; reflexivity. Qed.
End Counterexamples.

(* ------------------------------------------------------------------------------------------------ *)
Print Assumptions values_ref.
Print Assumptions get_ref.
Print Assumptions map_demand_values.
Print Assumptions map_demand.
Print Assumptions map_all.
Print Assumptions map_upstream_events.
Print Assumptions map_upstream_events_all.
Print Assumptions map_upstream_transparent.
Print Assumptions map_upstream_transparent_all.
Print Assumptions filter_demand_values.
Print Assumptions filter_demand.
Print Assumptions filter_demand_le.
Print Assumptions filter_all.
Print Assumptions filter_upstream_events.
Print Assumptions filter_upstream_events_all.
Print Assumptions batch_demand_events.
Print Assumptions batch_demand.
Print Assumptions batch_demand_le.
Print Assumptions batch_demand_enough.
Print Assumptions batch_all_events.
Print Assumptions unbatch_all_events.
Print Assumptions concat_all_events.
Print Assumptions get_map_support.
Print Assumptions get_map_events.
Print Assumptions get_slice_support.
Print Assumptions get_slice_support_nth.
Print Assumptions get_batch_support.
Print Assumptions no_fail_in_iteration.
Print Assumptions no_fail_in_iteration_upto.
Print Assumptions fetch_count_root.
Print Assumptions fetch_count_full.
Print Assumptions fetch_count_prefix.
