(* CatchProofs.v - C14: catch(E) / prefetch(catch_filter_exception=E) drop exactly the examples whose
   evaluation raises a selected exception; lazy filter, eager filter and FilterException-under-catch agree.
   Standard library only; no axioms. *)
From Coq Require Import String.
From Coq Require Import List Arith ZArith Bool Lia ZifyBool ZifyNat.
Require Import LD.Base LD.PySlice LD.Pipeline LD.Build LD.Ref LD.RefTheorem.
From Coq Require Import Sorted.
Import ListNotations.
Open Scope Z_scope.

(* ------------------------------------------------------------------ the specification *)
(* the specification of exception-based filtering on a list of per-position outcomes, written independently
   of loop_catch: drop the outcomes whose exception is selected, keep values in order, stop at the first
   outcome that is a NON-selected exception and end with exactly that exception *)
Definition is_stop (E : list ecls) (r : res val) : bool :=
  match r with Err e => negb (selected E e) | Ok _ => false end.
Fixpoint take_until_stop (E : list ecls) (l : list (res val)) : list (res val) * ending :=
  match l with
  | [] => ([], End)
  | r :: t => if is_stop E r then ([], match r with Err e => Raised e | Ok _ => End end)
              else let '(a, e) := take_until_stop E t in (r :: a, e)
  end.
Definition oks (l : list (res val)) : list val :=
  flat_map (fun r => match r with Ok v => [v] | Err _ => [] end) l.
Definition drop_selected (E : list ecls) (outcomes : list (res val)) : trace :=
  let '(a, e) := take_until_stop E outcomes in (oks a, e).

(* sanity of the specification itself: what it says in the two possible shapes of an outcome list *)
Lemma take_until_stop_none E l :
  Forall (fun r => is_stop E r = false) l -> take_until_stop E l = (l, End).
Proof.
  induction 1 as [|r l Hr _ IH]; simpl; [reflexivity|].
  now rewrite Hr, IH.
Qed.

Lemma take_until_stop_first E l1 e l2 :
  Forall (fun r => is_stop E r = false) l1 -> selected E e = false ->
  take_until_stop E (l1 ++ Err e :: l2) = (l1, Raised e).
Proof.
  intros H He. induction H as [|r l Hr _ IH]; simpl.
  - now rewrite He.
  - now rewrite Hr, IH.
Qed.

(* no outcome is a non-selected exception: all values, in order, normal end *)
Corollary drop_selected_none E l :
  Forall (fun r => is_stop E r = false) l -> drop_selected E l = (oks l, End).
Proof. intros H. unfold drop_selected. now rewrite take_until_stop_none. Qed.

(* the first non-selected exception sits after l1: the values of l1, then exactly that exception *)
Corollary drop_selected_first E l1 e l2 :
  Forall (fun r => is_stop E r = false) l1 -> selected E e = false ->
  drop_selected E (l1 ++ Err e :: l2) = (oks l1, Raised e).
Proof. intros H He. unfold drop_selected. now rewrite take_until_stop_first. Qed.

(* every outcome list has one of the two shapes *)
Lemma outcomes_shape E (l : list (res val)) :
  Forall (fun r => is_stop E r = false) l \/
  exists l1 e l2, l = l1 ++ Err e :: l2 /\ Forall (fun r => is_stop E r = false) l1 /\ selected E e = false.
Proof.
  induction l as [|r l IH]; [left; constructor|].
  destruct (is_stop E r) eqn:Hr.
  - right. destruct r as [v|e]; simpl in Hr; [discriminate|].
    exists [], e, l. repeat split; [constructor|]. now destruct (selected E e).
  - destruct IH as [IH|(l1 & e & l2 & -> & H1 & He)].
    + left. now constructor.
    + right. exists (r :: l1), e, l2. repeat split; [now constructor|assumption].
Qed.

Lemma oks_app l1 l2 : oks (l1 ++ l2) = oks l1 ++ oks l2.
Proof. unfold oks. apply flat_map_app. Qed.

Lemma in_oks v l : In v (oks l) <-> In (Ok v) l.
Proof.
  unfold oks. rewrite in_flat_map. split.
  - intros (r & Hin & Hv). destruct r as [w|e]; simpl in Hv; [|contradiction].
    destruct Hv as [->|[]]. assumption.
  - intros H. exists (Ok v). split; [assumption|]. now left.
Qed.

(* ------------------------------------------------------------------ loop_catch meets the specification *)
Theorem loop_catch_spec {A} E (g : A -> res val) xs :
  loop_catch E g xs = drop_selected E (map g xs).
Proof.
  unfold drop_selected.
  induction xs as [|x xs IH]; simpl; [reflexivity|].
  destruct (g x) as [v|e]; simpl.
  - rewrite IH. destruct (take_until_stop E (map g xs)) as [a en]. reflexivity.
  - destruct (selected E e); simpl.
    + rewrite IH. destruct (take_until_stop E (map g xs)) as [a en]. reflexivity.
    + reflexivity.
Qed.

(* C14 main statement, value iteration: ds.catch(E) over an input of length n yields exactly the examples whose
   evaluation ds[i] does not raise a selected exception, in order; the first other exception propagates at
   its position *)
Theorem catch_exact d E n : len_ d = Ok n ->
  iter_ false (DCatch E d) = drop_selected E (map (get_i d) (zseq n)).
Proof. intros H. simpl. rewrite H. simpl. apply loop_catch_spec. Qed.

(* key iteration *)
Theorem catch_exact_keys d E ks : keys_ d = Ok ks ->
  iter_ true (DCatch E d) = drop_selected E (map (fun k => keyed k (get_k d k)) ks).
Proof. intros H. simpl. rewrite H. simpl. apply loop_catch_spec. Qed.

(* the same for catch_filter_exception of multi-worker prefetch, and of single-worker prefetch *)
Theorem prefetch_catch_exact d E w b n : len_ d = Ok n ->
  iter_ false (DPrefetch w b (Some E) d) = drop_selected E (map (get_i d) (zseq n)).
Proof.
  intros H. simpl. destruct (w =? 1)%nat; rewrite H; simpl; apply loop_catch_spec.
Qed.

(* single-worker prefetch, key iteration (multi-worker prefetch has no keys()) *)
Theorem prefetch_catch_exact_keys d E b ks : keys_ d = Ok ks ->
  iter_ true (DPrefetch 1 b (Some E) d) =
  conv_items (drop_selected E (map (fun k => keyed k (get_k d k)) ks)).
Proof. intros H. simpl. rewrite H. simpl. now rewrite loop_catch_spec. Qed.

(* catch and prefetch(catch_filter_exception) coincide *)
Corollary prefetch_catch_same d E w b n : len_ d = Ok n ->
  iter_ false (DPrefetch w b (Some E) d) = iter_ false (DCatch E d).
Proof. intros H. now rewrite (prefetch_catch_exact d E w b n H), (catch_exact d E n H). Qed.

(* ------------------------------------------------------------------ outcomes compose along the chain *)
(* "wherever in the upstream chain the exception originates": per-position outcomes compose along the chain *)
Theorem outcome_map f d i : get_i (DMap f d) i = bind (get_i d i) f.
Proof. reflexivity. Qed.

Theorem outcome_parmap f w b d i : get_i (DParMap f w b d) i = bind (get_i d i) f.
Proof. reflexivity. Qed.

Theorem outcome_slice idx d i :
  get_i (DSlice idx d) i = (do j <- py_nth idx i; get_i d (Z.of_nat j)).
Proof. reflexivity. Qed.

Theorem outcome_zip d1 d2 i :
  get_i (DZip [d1; d2]) i = (do v1 <- get_i d1 i; do v2 <- get_i d2 i; Ok (VTup [v1; v2])).
Proof.
  simpl. destruct (get_i d1 i) as [v1|e1]; simpl; [|reflexivity].
  destruct (get_i d2 i) as [v2|e2]; reflexivity.
Qed.

(* an exception raised anywhere upstream is the outcome at that position downstream *)
Corollary outcome_map_err f d i e : get_i d i = Err e -> get_i (DMap f d) i = Err e.
Proof. intros H. rewrite outcome_map, H. reflexivity. Qed.

(* ------------------------------------------------------------------ selection is by subclass *)
(* selection is by subclass: an exception whose class derives from a listed class is selected; _ItemsNotDefined
   (a BaseException) is never selected by classes deriving from Exception *)
Lemma selected_subclass E e c : In c E -> isa (ecl e) c = true -> selected E e = true.
Proof.
  intros Hin Hisa. unfold selected. apply existsb_exists. exists c. now split.
Qed.

Lemma selected_iff E e : selected E e = true <-> exists c, In c E /\ isa (ecl e) c = true.
Proof. unfold selected. apply existsb_exists. Qed.

Lemma isa_items_nd_base c : isa EItemsNDBase c = true -> c = EItemsNDBase \/ c = EBase.
Proof. destruct c; simpl; intros H; try discriminate; auto. Qed.

Lemma items_not_defined_escapes E :
  Forall (fun c => isa c EException = true) E -> selected E (lib EItemsNDBase) = false.
Proof.
  intros H. unfold selected. simpl.
  induction H as [|c E Hc _ IH]; simpl; [reflexivity|].
  rewrite IH, orb_false_r.
  destruct (isa EItemsNDBase c) eqn:Hi; [|reflexivity].
  apply isa_items_nd_base in Hi. destruct Hi as [->| ->]; vm_compute in Hc; discriminate.
Qed.

(* ------------------------------------------------------------------ the three filters agree *)
(* lazy filter, eager filter, and raising FilterException under catch select the same examples *)
Definition raise_unless (p : val -> res bool) (tag : Z) (v : val) : res val :=
  match p v with Ok true => Ok v | Ok false => Err (mkexn EFilter tag) | Err e => Err e end.

Lemma map_Forall2_eq {A B C} (g : A -> C) (h : B -> C) xs l :
  Forall2 (fun x a => g x = h a) xs l -> map g xs = map h l.
Proof. induction 1; simpl; [reflexivity|]. now f_equal. Qed.

(* [f(l[i]) for i in range(len(l))] = [f(v) for v in l], as lists of outcomes *)
Lemma outcomes_zseq_py_nth (g : Z -> res val) (f : val -> res val) (l : list val) :
  (forall i, g i = bind (py_nth l i) f) -> map g (zseq (length l)) = map f l.
Proof.
  intros H. unfold zseq. rewrite map_map. apply map_Forall2_eq.
  eapply RefLemmas_A2.Forall2_impl'; [|apply RefLemmas_A2.Forall2_seq_nth_error].
  intros j a Hj. simpl in Hj. rewrite H.
  now rewrite (RefLemmas_A2.py_nth_of_nat_some l j a Hj).
Qed.

Lemma selected_filter tag : selected [EFilter] (mkexn EFilter tag) = true.
Proof. reflexivity. Qed.

Lemma loop_catch_raise_unless p tag t t' :
  filter_rows p t = Some t' ->
  loop_catch [EFilter] (raise_unless p tag) (vals t) = (vals t', End).
Proof.
  revert t'. induction t as [|kv r IH]; intros t' H; simpl in *.
  - injection H as <-. reflexivity.
  - unfold raise_unless at 1. destruct (p (snd kv)) as [[|]|e]; [| |discriminate].
    + destruct (filter_rows p r) as [t''|]; [|discriminate]. simpl in H. injection H as <-.
      rewrite (IH t'' eq_refl). reflexivity.
    + change (selected [EFilter] (mkexn EFilter tag)) with true. now apply IH.
Qed.

(* positions_where with its accumulator exposed *)
Definition pw_go (q : val -> res bool) : list val -> Z -> res (list Z) :=
  fix go (l : list val) (i : Z) : res (list Z) :=
  match l with
  | [] => Ok []
  | v :: t => do b <- q v; do r <- go t (i + 1); Ok (if b then i :: r else r)
  end.
Lemma positions_where_go q l : positions_where q l = pw_go q l 0.
Proof. reflexivity. Qed.

Lemma select_shift {A} (pre : list A) kv r js :
  select js ((pre ++ [kv]) ++ r) = select js (pre ++ kv :: r).
Proof. now rewrite <- app_assoc. Qed.

(* the positions found are ascending, in range, and select exactly the rows filter_rows keeps *)
Lemma pw_go_select p t : forall t' pre,
  filter_rows p t = Some t' ->
  exists js, pw_go p (vals t) (Z.of_nat (length pre)) = Ok (map Z.of_nat js) /\
             Forall (fun j => (length pre <= j < length pre + length t)%nat) js /\
             StronglySorted lt js /\
             select js (pre ++ t) = Some t'.
Proof.
  induction t as [|kv r IH]; intros t' pre H; simpl in *.
  - injection H as <-. exists []. repeat split; constructor.
  - destruct (p (snd kv)) as [[|]|e] eqn:Hp; [| |discriminate]; simpl.
    + destruct (filter_rows p r) as [t''|] eqn:Hr; [|discriminate]. simpl in H. injection H as <-.
      destruct (IH t'' (pre ++ [kv]) eq_refl) as (js & Hgo & Hrange & Hsorted & Hsel).
      rewrite app_length in Hgo, Hrange. simpl in Hgo, Hrange.
      replace (Z.of_nat (length pre + 1)) with (Z.of_nat (length pre) + 1) in Hgo by lia.
      exists (length pre :: js). rewrite Hgo. simpl. repeat split.
      * constructor; [lia|]. eapply Forall_impl; [|exact Hrange]. simpl. intros; lia.
      * constructor; [assumption|]. eapply Forall_impl; [|exact Hrange]. simpl. intros; lia.
      * rewrite select_shift in Hsel. unfold select in *. simpl.
        rewrite nth_error_app2 by lia. rewrite Nat.sub_diag. simpl.
        rewrite Hsel. reflexivity.
    + destruct (IH t' (pre ++ [kv]) H) as (js & Hgo & Hrange & Hsorted & Hsel).
      rewrite app_length in Hgo, Hrange. simpl in Hgo, Hrange.
      replace (Z.of_nat (length pre + 1)) with (Z.of_nat (length pre) + 1) in Hgo by lia.
      exists js. rewrite Hgo. simpl. repeat split.
      * eapply Forall_impl; [|exact Hrange]. simpl. intros; lia.
      * assumption.
      * now rewrite select_shift in Hsel.
Qed.

Lemma positions_where_select p t t' :
  filter_rows p t = Some t' ->
  exists js, positions_where p (vals t) = Ok (map Z.of_nat js) /\
             Forall (fun j => (j < length t)%nat) js /\
             StronglySorted lt js /\
             select js t = Some t'.
Proof.
  intros H. destruct (pw_go_select p t t' [] H) as (js & Hgo & Hrange & Hs & Hsel).
  exists js. rewrite positions_where_go. simpl in *. repeat split; try assumption.
  eapply Forall_impl; [|exact Hrange]. simpl. intros; lia.
Qed.

Lemma fancy_indices_of_nat n js :
  Forall (fun j => (j < n)%nat) js -> fancy_indices n (map Z.of_nat js) = Ok js.
Proof.
  unfold fancy_indices. induction 1 as [|j js Hj _ IH]; simpl; [reflexivity|].
  rewrite IH.
  destruct (Z.of_nat j <? 0) eqn:H1; [lia|].
  destruct ((Z.of_nat j <? 0) || (Z.of_nat n <=? Z.of_nat j)) eqn:H2; [lia|].
  simpl. now rewrite Nat2Z.id.
Qed.

Theorem three_filters_agree d t p tag t' :
  wfb d = true -> tbl d = Some t -> ixok d = true ->
  filter_rows p t = Some t' ->                       (* the predicate raises on no example *)
  iter_ false (DFilter p d) = (vals t', End) /\
  iter_ false (DCatch [EFilter] (DMap (raise_unless p tag) d)) = (vals t', End) /\
  exists idx, positions_where p (vals t) = Ok idx /\
  exists d', mk_slice (SlInts idx) d = Ok d' /\ iter_ false d' = (vals t', End).
Proof.
  intros Hwf Htbl Hix Hf.
  pose proof (agrees_of_tbl d t Hwf Htbl) as Hag.
  pose proof Hix as Hix'. unfold ixok in Hix'. apply andb_true_iff in Hix'. destruct Hix' as [Hidx Hik].
  destruct (ag_idx d t Hag Hidx Hik) as [Hlen Hget].
  split; [|split].
  - (* lazy filter *)
    assert (Htf : tbl (DFilter p d) = Some t') by (simpl; rewrite Htbl; exact Hf).
    exact (ag_iter _ _ (agrees_of_tbl (DFilter p d) t' Hwf Htf)).
  - (* FilterException under catch *)
    rewrite (catch_exact (DMap (raise_unless p tag) d) [EFilter] (length t) Hlen).
    rewrite <- (RefLemmas_A1.length_vals t).
    rewrite (outcomes_zseq_py_nth _ (raise_unless p tag) (vals t)).
    + rewrite <- loop_catch_spec. now apply loop_catch_raise_unless.
    + intros i. rewrite outcome_map, Hget. reflexivity.
  - (* eager filter *)
    destruct (positions_where_select p t t' Hf) as (js & Hpw & Hrange & _ & Hsel).
    exists (map Z.of_nat js). split; [exact Hpw|].
    exists (DSlice js d). split.
    + unfold mk_slice. rewrite Hidx. simpl. rewrite Hlen. simpl.
      rewrite (fancy_indices_of_nat _ _ Hrange). reflexivity.
    + assert (Hts : tbl (DSlice js d) = Some t') by (simpl; rewrite Hix, Htbl; exact Hsel).
      exact (ag_iter _ _ (agrees_of_tbl (DSlice js d) t' Hwf Hts)).
Qed.

(* the eager clause through `build`: ds.filter(p, lazy=False) on a built program *)
Corollary build_filter_eager_agrees pr d t p t' :
  build pr = Ok d ->
  wfb d = true -> tbl d = Some t -> ixok d = true ->
  filter_rows p t = Some t' ->
  exists d', build (PFilter p false pr) = Ok d' /\ iter_ false d' = (vals t', End).
Proof.
  intros Hb Hwf Htbl Hix Hf.
  destruct (three_filters_agree d t p 0 t' Hwf Htbl Hix Hf) as (_ & _ & idx & Hpw & d' & Hmk & Hit).
  pose proof (agrees_of_tbl d t Hwf Htbl) as Hag.
  pose proof Hix as Hix'. unfold ixok in Hix'. apply andb_true_iff in Hix'. destruct Hix' as [Hidx Hik].
  destruct (ag_idx d t Hag Hidx Hik) as [Hlen _].
  exists d'. split; [|exact Hit].
  simpl. rewrite Hb. simpl. rewrite Hidx. simpl.
  rewrite (ag_iter d t Hag). unfold trace_res. simpl.
  rewrite Hpw. simpl. rewrite Hlen. simpl. exact Hmk.
Qed.

Print Assumptions loop_catch_spec.
Print Assumptions catch_exact.
Print Assumptions catch_exact_keys.
Print Assumptions prefetch_catch_exact.
Print Assumptions prefetch_catch_exact_keys.
Print Assumptions prefetch_catch_same.
Print Assumptions outcome_map.
Print Assumptions outcome_parmap.
Print Assumptions outcome_slice.
Print Assumptions outcome_zip.
Print Assumptions selected_subclass.
Print Assumptions items_not_defined_escapes.
Print Assumptions drop_selected_none.
Print Assumptions drop_selected_first.
Print Assumptions outcomes_shape.
Print Assumptions three_filters_agree.
Print Assumptions build_filter_eager_agrees.
