From Coq Require Import List Arith Bool Lia ZifyBool ZifyNat.
Import ListNotations.
Require Import LD.PrefetchST LD.PrefetchSTProofs LD.PrefetchSTSafety.

(* Outcome theorems for the single_thread_prefetch transition system. *)

(* first failure of the source *)
Fixpoint first_fail (l : list sev) : option (bool * nat) :=
  match l with SOk _ :: r => first_fail r | SFail ie t :: _ => Some (ie, t) | [] => None end.

Definition finishing (w : wpc) : bool :=
  match w with WExc _ | WFin | WPutS | WEnd => true | _ => false end.
Definition w1 (w : wpc) : nat := match w with W1 => 1 | _ => 0 end.

Fixpoint has_sent (l : list item) : bool :=
  match l with [] => false | Sentinel :: _ => true | Val _ :: r => has_sent r end.
(* the sentinel can only be the last element of the queue *)
Fixpoint wfq (l : list item) : bool :=
  match l with
  | [] => true
  | Val _ :: r => wfq r
  | Sentinel :: r => match r with [] => true | _ => false end
  end.

Definition below (K : option nat) (n : nat) : Prop :=
  match K with Some k => n < k | None => True end.
Definition atmost (K : option nat) (n : nat) : Prop :=
  match K with Some k => n <= k | None => True end.

Ltac xinv :=
  repeat match goal with
  | H : Some _ = Some _ |- _ => inversion H; subst; clear H
  | H : None = Some _ |- _ => discriminate
  | H : context [if ?b then _ else _] |- _ => destruct b eqn:?
  | H : context [match ?x with _ => _ end] |- _ => destruct x eqn:?
  end.

Ltac xin H :=
  repeat match type of H with
  | Some _ = Some _ => inversion H; subst; clear H
  | None = Some _ => discriminate H
  | context [if ?b then _ else _] => destruct b eqn:?
  | context [match ?x with _ => _ end] => destruct x eqn:?
  end.

Lemma has_sent_app l x : has_sent (l ++ [x]) = has_sent l || match x with Sentinel => true | _ => false end.
Proof. induction l as [|[v|] l IH]; simpl; auto. Qed.

Lemma wfq_app l x : has_sent l = false -> wfq (l ++ [x]) = true.
Proof.
  induction l as [|[v|] l IH]; simpl; intros; auto; try discriminate.
  destruct x; auto.
Qed.

Lemma vals_app a b : vals (a ++ b) = vals a ++ vals b.
Proof. unfold vals. apply flat_map_app. Qed.

Section Outcome.
Variable B : nat.
Variable cb : bool.
Hypothesis Bpos : 1 <= B.
Variable src0 : list sev.

(* ------------------------------------------------------------------ *)
(* generic facts about reach                                           *)

Lemma reach_step_left K s t s1 s2 :
  step B K cb s t = Some s1 -> reach B K cb s1 s2 -> reach B K cb s s2.
Proof.
  intros Hs Hr. induction Hr.
  - eapply reachS; [apply reach0 | exact Hs].
  - eapply reachS; eauto.
Qed.

Lemma run_reach K s sched : reach B K cb s (run B K cb s sched).
Proof.
  revert s. induction sched as [|t r IH]; intros s; simpl.
  - apply reach0.
  - destruct (step B K cb s t) eqn:E; auto.
    eapply reach_step_left; eauto.
Qed.

(* ------------------------------------------------------------------ *)
(* 2. past the join the worker has exited and nothing can run          *)

Theorem st_terminal_joined K s :
  reach B K cb (init src0) s -> cp s = CEnd -> wp s = WEnd.
Proof.
  intros Hr Hc. apply (inv_reach B K cb Bpos) in Hr. destruct Hr as [_ _ _ Idone _ _].
  apply Idone. right; exact Hc.
Qed.

Theorem st_no_step_after_end K s :
  reach B K cb (init src0) s -> cp s = CEnd -> forall t, step B K cb s t = None.
Proof.
  intros Hr Hc t. pose proof (st_terminal_joined K s Hr Hc) as Hw.
  destruct t; simpl.
  - unfold cstep. rewrite Hc. reflexivity.
  - unfold wstep. rewrite Hc, Hw. reflexivity.
Qed.

(* ------------------------------------------------------------------ *)
(* 3. after shutdown the worker pulls at most once more                *)

Lemma sd_step K s t s' :
  shutdown s = true -> step B K cb s t = Some s' ->
  shutdown s' = true /\ pulled s' + w1 (wp s') <= pulled s + w1 (wp s).
Proof.
  intros Hsd Hs. destruct s as [sr qq sd ex w c dl pl cl di]. simpl in *. subst sd.
  destruct t; simpl in Hs.
  - unfold cstep, set_c in Hs; simpl in Hs.
    destruct c; xinv; simpl; split; auto; lia.
  - unfold wstep, set_w in Hs; simpl in Hs.
    destruct c; try discriminate; destruct w; xinv; simpl; split; auto; lia.
Qed.

Lemma sd_reach K s s' :
  shutdown s = true -> reach B K cb s s' ->
  shutdown s' = true /\ pulled s' + w1 (wp s') <= pulled s + w1 (wp s).
Proof.
  intros Hsd Hr. induction Hr.
  - split; auto.
  - destruct IHHr as [H1 H2]. destruct (sd_step K _ _ _ H1 H) as [H3 H4]. split; auto; lia.
Qed.

Theorem st_pulls_after_shutdown K s s' :
  reach B K cb (init src0) s -> shutdown s = true -> reach B K cb s s' ->
  pulled s' <= pulled s + (match wp s with W1 => 1 | _ => 0 end).
Proof.
  intros _ Hsd Hr. destruct (sd_reach K s s' Hsd Hr) as [_ H]. unfold w1 in H.
  destruct (wp s'); destruct (wp s); lia.
Qed.

(* ------------------------------------------------------------------ *)
(* outcome invariant, for every consumer script K                      *)

Definition outcome_ok (e d : option nat) : Prop :=
  match first_fail src0 with
  | None => e = None /\ d = None
  | Some (ie, t) => if ie || cb then e = Some t /\ d = None else e = None /\ d = Some t
  end.

Record XInv (K : option nat) (s : st) : Prop := {
  X_sd   : shutdown s = PrefetchSTSafety.post_shutdown (cp s);
  X_c    : match cp s with
           | C0 => delivered s = [] /\ closing s = false
           | C1 | C2 (Val _) => below K (length (delivered s)) /\ closing s = false
           | C2 Sentinel => closing s = false /\ wp s = WEnd /\ q s = []
           | C3 => atmost K (length (delivered s)) /\ closing s = false
           | C4 => closing s = false -> wp s = WEnd /\ q s = []
           | _ => closing s = false -> wp s = WEnd /\ q s = [] /\ delivered s = oks_before src0
           end;
  X_cl   : closing s = true -> K = Some (length (delivered s));
  X_wf   : wfq (q s) = true;
  X_sent : has_sent (q s) = true -> wp s = WEnd;
  X_fin  : shutdown s = false -> finishing (wp s) = true -> src s = [];
  X_out  : closing s = false ->
           match wp s with
           | WExc t => exists ie, first_fail src0 = Some (ie, t) /\ ie || cb = true /\
                                  exc s = None /\ died s = None
           | WFin | WPutS | WEnd => outcome_ok (exc s) (died s)
           | _ => first_fail (src s) = first_fail src0 /\ exc s = None /\ died s = None
           end;
}.

Lemma xinv_init K : XInv K (init src0).
Proof. constructor; simpl; intros; try discriminate; auto. Qed.

Ltac spec_refl :=
  repeat match goal with
  | H : ?x = ?x -> _ |- _ => specialize (H eq_refl)
  | H : _ /\ _ |- _ => destruct H
  end.

Lemma xinv_cstep K s s' :
  SInv B src0 s -> XInv K s -> cstep K s = Some s' -> XInv K s'.
Proof.
  intros HS [Xsd Xc Xcl Xwf Xsent Xfin Xout] Hs.
  pose proof (S_order _ _ _ HS) as Sord. clear HS.
  destruct s as [sr qq sd ex w c dl pl cl di]. unfold stream_of in *. simpl in *.
  unfold cstep, set_c, want_close in Hs; simpl in Hs.
  destruct c as [| |[v|]| | | | | |]; simpl in *; subst sd; xin Hs;
    unfold below, atmost in *;
    constructor; simpl in *; intros;
    try discriminate; try reflexivity; try assumption; auto;
    spec_refl; subst; simpl in *;
    try tauto; try (intuition (try congruence; try lia); fail).
  all: unfold below, atmost in *; rewrite ?app_length in *; simpl in *.
  all: try (destruct K; simpl in *; try discriminate; first [ f_equal; lia | split; [lia|reflexivity] | split; auto; fail ]).
  all: try (match goal with i : item |- _ => destruct i end; simpl in *;
            try (match goal with l : list item |- _ => destruct l end; try discriminate); auto; fail).
  spec_refl; subst; simpl in *. rewrite (Xfin eq_refl) in Sord. simpl in Sord.
  rewrite app_nil_r in Sord. auto.
Qed.

Lemma xinv_wstep K s s' :
  SInv B src0 s -> XInv K s -> wstep B cb s = Some s' -> XInv K s'.
Proof.
  intros HS [Xsd Xc Xcl Xwf Xsent Xfin Xout] Hs.
  pose proof (S_order _ _ _ HS) as Sord. clear HS.
  destruct s as [sr qq sd ex w c dl pl cl di]. unfold stream_of in *. simpl in *.
  unfold wstep, set_w in Hs; simpl in Hs.
  destruct c as [| |[v'|]| | | | | |]; try discriminate; simpl in *; subst sd;
    destruct w; xin Hs;
    constructor; simpl in *; intros;
    try discriminate; try reflexivity; try assumption; auto;
    spec_refl; subst; simpl in *; spec_refl;
    try discriminate; try tauto; try (intuition (try congruence; try lia); fail).
  all: try (apply wfq_app; destruct (has_sent qq); auto; specialize (Xsent eq_refl); discriminate).
  all: try (match goal with H : has_sent (_ ++ _) = true |- _ =>
              rewrite has_sent_app, orb_false_r in H; specialize (Xsent H); discriminate end).
  all: try (exists is_exc; subst; repeat split; auto; fail).
  all: try (unfold outcome_ok; match goal with H : _ = first_fail src0 |- _ => rewrite <- H end;
            subst; rewrite ?Heqb; auto; fail).
  all: try (destruct Xout as [ie [E1 [E2 [E3 E4]]]]; unfold outcome_ok; rewrite E1, E2; subst; auto; fail).
Qed.

Lemma xinv_reach K s : reach B K cb (init src0) s -> XInv K s.
Proof.
  induction 1 as [|s t s' Hr IH Hs].
  - apply xinv_init.
  - pose proof (sinv_reach B K cb Bpos src0 s Hr) as HS.
    destruct t; simpl in Hs; eauto using xinv_cstep, xinv_wstep.
Qed.

(* a consumer that reached the end without closing early received everything
   before the first failure, and the worker recorded exactly that failure *)
Theorem st_nonclosing_outcome K s :
  reach B K cb (init src0) s -> cp s = CEnd -> closing s = false ->
  delivered s = oks_before src0 /\ outcome_ok (exc s) (died s).
Proof.
  intros Hr Hc Hcl. apply xinv_reach in Hr.
  destruct Hr as [_ Xc _ _ _ _ Xout]. rewrite Hc in Xc.
  destruct (Xc Hcl) as [Hw [_ Hd]]. split; auto.
  specialize (Xout Hcl). rewrite Hw in Xout. exact Xout.
Qed.

(* 1. exhausting consumer *)
Theorem st_exhaust_outcome s :
  reach B None cb (init src0) s -> cp s = CEnd ->
  delivered s = oks_before src0 /\ closing s = false /\
  match first_fail src0 with
  | None => exc s = None /\ died s = None
  | Some (ie, t) => if ie || cb then exc s = Some t /\ died s = None
                    else exc s = None /\ died s = Some t
  end.
Proof.
  intros Hr Hc.
  assert (Hcl : closing s = false).
  { pose proof (X_cl _ _ (xinv_reach _ _ Hr)) as H.
    destruct (closing s); auto. specialize (H eq_refl). discriminate. }
  destruct (st_nonclosing_outcome None s Hr Hc Hcl) as [Hd Ho].
  repeat split; auto.
Qed.

(* 4. early close after S k examples *)
Theorem st_close_outcome k s :
  reach B (Some (S k)) cb (init src0) s -> cp s = CEnd ->
  (closing s = true /\ length (delivered s) = S k) \/
  (closing s = false /\ delivered s = oks_before src0).
Proof.
  intros Hr Hc. destruct (closing s) eqn:Hcl.
  - left. split; auto.
    pose proof (X_cl _ _ (xinv_reach _ _ Hr) Hcl) as H. inversion H; auto.
  - right. split; auto. apply (st_nonclosing_outcome _ s Hr Hc Hcl).
Qed.


End Outcome.

(* ------------------------------------------------------------------ *)
(* refutation witness for the code as pinned (catch_base = false): a
   BaseException in the producer ends the stream silently              *)

Definition sched_demo : list tid :=
  [TC; TW; TW; TW; TW; TW; TW; TW; TW; TW; TC; TC; TC; TW; TW; TC; TC; TC; TC; TC; TC; TC].

Example st_base_exception_swallowed :
  exists s, reach 1 None false (init [SOk 1; SFail false 7]) s /\
            cp s = CEnd /\ exc s = None /\ delivered s = [1].
Proof.
  exists (run 1 None false (init [SOk 1; SFail false 7]) sched_demo).
  split; [apply run_reach|]. vm_compute. repeat split; reflexivity.
Qed.

Example st_base_exception_reported :
  exists s, reach 1 None true (init [SOk 1; SFail false 7]) s /\
            cp s = CEnd /\ exc s = Some 7 /\ delivered s = [1].
Proof.
  exists (run 1 None true (init [SOk 1; SFail false 7]) sched_demo).
  split; [apply run_reach|]. vm_compute. repeat split; reflexivity.
Qed.

Print Assumptions st_exhaust_outcome.
Print Assumptions st_nonclosing_outcome.
Print Assumptions st_terminal_joined.
Print Assumptions st_no_step_after_end.
Print Assumptions st_pulls_after_shutdown.
Print Assumptions st_close_outcome.
Print Assumptions st_base_exception_swallowed.
Print Assumptions st_base_exception_reported.
