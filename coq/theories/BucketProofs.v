(* BucketProofs.v - theorems about Model D (Bucket.v): DynamicBucketDataset.__iter__ generically in the
   bucket class (PART 1) and the DynamicTimeSeriesBucket instance over exact rationals (PART 2). *)
From Coq Require Import List Arith Bool Lia ZifyBool ZifyNat Permutation Sorted QArith.
Import ListNotations.
Require Import LD.Bucket.
From Coq Require Import Lqa.
Local Close Scope Q_scope.

(* ---------- order preserving sublists ---------- *)
Section Sub.
  Context {A : Type}.
  Inductive sub : list A -> list A -> Prop :=
  | sub_nil : sub [] []
  | sub_skip a l l' : sub l l' -> sub l (a :: l')
  | sub_keep a l l' : sub l l' -> sub (a :: l) (a :: l').

  Lemma sub_refl l : sub l l.
  Proof. induction l; [apply sub_nil | apply sub_keep; auto]. Qed.

  Lemma sub_Forall (P : A -> Prop) l l' : sub l l' -> Forall P l' -> Forall P l.
  Proof.
    induction 1; intros F; auto.
    - inversion F; subst; auto.
    - inversion F; subst; constructor; auto.
  Qed.

  Lemma sub_SS (R : A -> A -> Prop) l l' : sub l l' -> StronglySorted R l' -> StronglySorted R l.
  Proof.
    induction 1; intros F; auto.
    - apply StronglySorted_inv in F. tauto.
    - apply StronglySorted_inv in F. destruct F as [F1 F2]. constructor; auto.
      eapply sub_Forall; eauto.
  Qed.

  Lemma remove_nth_sub (l : list A) : forall j, sub (remove_nth l j) l.
  Proof.
    induction l as [|a r IH]; intros [|j]; simpl.
    - apply sub_nil.
    - apply sub_nil.
    - apply sub_skip, sub_refl.
    - apply sub_keep, IH.
  Qed.

  Lemma Forall_reinsert (P : A -> Prop) (l : list A) : forall j a,
    nth_error l j = Some a -> P a -> Forall P (remove_nth l j) -> Forall P l.
  Proof.
    induction l as [|a0 r IH]; intros [|j] a H Pa F; simpl in *; try discriminate.
    - inversion H; subst. constructor; auto.
    - inversion F; subst. constructor; eauto.
  Qed.
End Sub.

Lemma sub_map {A B} (f : A -> B) l l' : sub l l' -> sub (map f l) (map f l').
Proof. induction 1; simpl; [apply sub_nil | apply sub_skip | apply sub_keep]; auto. Qed.

Lemma SS_snoc (cs : list nat) i : StronglySorted lt cs -> Forall (fun c => c < i) cs ->
  StronglySorted lt (cs ++ [i]).
Proof.
  induction cs as [|c r IH]; simpl; intros S F.
  - constructor; constructor.
  - apply StronglySorted_inv in S. destruct S as [S1 S2]. inversion F; subst.
    constructor; auto. apply Forall_app; split; auto.
Qed.

(* ====================================================================================== *)
(* PART 1: generic in the bucket class                                                     *)
(* ====================================================================================== *)
Section Generic.
  Variable ex : Type.
  Variable bucket : Type.
  Variable bdata : bucket -> list ex.
  Variable binit : ex -> bucket.
  Variable bappend : bucket -> ex -> option bucket.
  Variable bcomplete : bucket -> bool.
  Variable expiration : option nat.
  Variable max_buffered : option nat.
  Variable drop : bool.
  Variable srt : list ex -> list ex.

  Hypothesis binit_data : forall x, bdata (binit x) = [x].
  Hypothesis bappend_data : forall b x b', bappend b x = Some b' -> bdata b' = bdata b ++ [x].
  Hypothesis srt_perm : forall l, Permutation (srt l) l.

  Local Notation open := (Bucket.open bucket).
  Local Notation outb := (Bucket.outb ex).
  Local Notation payload := (Bucket.payload ex).
  Local Notation release := (Bucket.release ex bucket bdata drop srt).
  Local Notation first_fit := (Bucket.first_fit ex bucket binit bappend bcomplete).
  Local Notation complete_step := (Bucket.complete_step ex bucket bdata bcomplete srt).
  Local Notation expire_first := (Bucket.expire_first ex bucket bdata drop srt).
  Local Notation expire_step := (Bucket.expire_step ex bucket bdata expiration drop srt).
  Local Notation buffered := (Bucket.buffered ex bucket bdata).
  Local Notation overflow := (Bucket.overflow ex bucket bdata drop srt).
  Local Notation overflow_step := (Bucket.overflow_step ex bucket bdata max_buffered drop srt).
  Local Notation step := (Bucket.step ex bucket bdata binit bappend bcomplete expiration max_buffered drop srt).
  Local Notation run := (Bucket.run ex bucket bdata binit bappend bcomplete expiration max_buffered drop srt).
  Local Notation run_withheld :=
    (Bucket.run_withheld ex bucket bdata binit bappend bcomplete expiration max_buffered drop srt).
  Local Notation annotate := (Bucket.annotate ex bucket bdata).
  Local Notation withheld_after := (Bucket.withheld_after ex bucket bdata).
  Local Notation emitted := (Bucket.emitted ex).
  Local Notation dropped := (Bucket.dropped ex).

  Definition contents (bs : list open) : list ex := concat (map (fun o => bdata (fst o)) bs).
  Definition payloads (os : list outb) : list ex := concat (map payload os).

  Lemma payloads_app a b : payloads (a ++ b) = payloads a ++ payloads b.
  Proof. unfold payloads. now rewrite map_app, concat_app. Qed.

  Lemma buffered_contents bs : buffered bs = length (contents bs).
  Proof. reflexivity. Qed.

  (* ---------- the shape of one step, as a lemma for destructing it ---------- *)
  Lemma step_inv bs i x bs' o : step bs i x = Some (bs', o) ->
    exists bs1 j bs2 o1 bs3 o2 o3,
      first_fit bs x i = Some (bs1, j) /\ complete_step bs1 j = (bs2, o1) /\
      expire_step bs2 i = (bs3, o2) /\ overflow_step bs3 = (bs', o3) /\ o = o1 ++ o2 ++ o3.
  Proof.
    unfold Bucket.step. destruct (first_fit bs x i) as [[bs1 j]|] eqn:F1; [|discriminate].
    destruct (complete_step bs1 j) as [bs2 o1] eqn:F2.
    destruct (expire_step bs2 i) as [bs3 o2] eqn:F3.
    destruct (overflow_step bs3) as [bs4 o3] eqn:F4.
    intros H; inversion H; subst. exists bs1, j, bs2, o1, bs3, o2, o3. auto.
  Qed.

  (* ---------- conservation ---------- *)
  Lemma release_payload b : Permutation (payload (release b)) (bdata b).
  Proof. unfold Bucket.release. destruct drop; simpl; auto. Qed.

  Lemma first_fit_contents bs x i : forall bs' j, first_fit bs x i = Some (bs', j) ->
    Permutation (contents bs') (contents bs ++ [x]).
  Proof.
    induction bs as [|[b c] r IH]; simpl; intros bs' j H.
    - inversion H; subst. unfold contents; simpl. rewrite binit_data. simpl. auto.
    - destruct (bcomplete b); [discriminate|]. destruct (bappend b x) eqn:E.
      + inversion H; subst. unfold contents; simpl. rewrite (bappend_data _ _ _ E).
        rewrite <- !app_assoc. apply Permutation_app_head. simpl. apply Permutation_cons_append.
      + destruct (first_fit r x i) as [[r' j']|] eqn:F; [|discriminate]. inversion H; subst.
        specialize (IH _ _ eq_refl). unfold contents in *; simpl.
        rewrite <- app_assoc. apply Permutation_app_head. exact IH.
  Qed.

  Lemma remove_nth_contents (bs : list open) j b c : nth_error bs j = Some (b, c) ->
    Permutation (contents bs) (bdata b ++ contents (remove_nth bs j)).
  Proof.
    revert j; induction bs as [|[b0 c0] r IH]; intros [|j] H; simpl in *; try discriminate.
    - inversion H; subst. unfold contents; simpl. auto.
    - unfold contents in *; simpl. rewrite (IH _ H). rewrite !app_assoc.
      apply Permutation_app_tail. apply Permutation_app_comm.
  Qed.

  Lemma complete_step_contents bs j bs' o : complete_step bs j = (bs', o) ->
    Permutation (contents bs) (payloads o ++ contents bs').
  Proof.
    unfold Bucket.complete_step. destruct (nth_error bs j) as [[b c]|] eqn:E.
    - destruct (bcomplete b); intros H; inversion H; subst; unfold payloads; simpl; auto.
      rewrite app_nil_r. rewrite (remove_nth_contents _ _ _ _ E). apply Permutation_app_tail.
      symmetry. apply srt_perm.
    - intros H; inversion H; subst; simpl; auto.
  Qed.

  Lemma expire_first_contents bs i E : forall bs' o, expire_first bs i E = (bs', o) ->
    Permutation (contents bs) (payloads o ++ contents bs').
  Proof.
    induction bs as [|[b c] r IH]; simpl; intros bs' o H.
    - inversion H; subst; auto.
    - destruct (E <=? i - c).
      + inversion H; subst. unfold payloads, contents; simpl. rewrite app_nil_r.
        apply Permutation_app_tail. symmetry. apply release_payload.
      + destruct (expire_first r i E) as [r' o'] eqn:F. inversion H; subst.
        specialize (IH _ _ eq_refl). unfold contents in *; simpl. rewrite IH.
        rewrite !app_assoc. apply Permutation_app_tail. apply Permutation_app_comm.
  Qed.

  Lemma expire_step_contents bs i bs' o : expire_step bs i = (bs', o) ->
    Permutation (contents bs) (payloads o ++ contents bs').
  Proof.
    unfold Bucket.expire_step. destruct expiration.
    - apply expire_first_contents.
    - intros H; inversion H; subst; auto.
  Qed.

  Lemma overflow_contents fuel : forall bs M bs' o, overflow fuel bs M = (bs', o) ->
    Permutation (contents bs) (payloads o ++ contents bs').
  Proof.
    induction fuel as [|f IH]; simpl; intros bs M bs' o H.
    - inversion H; subst; auto.
    - destruct (M <? buffered bs).
      + destruct bs as [|[b c] r]. { inversion H; subst; auto. }
        destruct (overflow f r M) as [r' o'] eqn:F. inversion H; subst.
        specialize (IH _ _ _ _ F). unfold payloads, contents in *; simpl. rewrite IH.
        rewrite <- app_assoc. apply Permutation_app; auto. symmetry; apply release_payload.
      + inversion H; subst; auto.
  Qed.

  Lemma overflow_step_contents bs bs' o : overflow_step bs = (bs', o) ->
    Permutation (contents bs) (payloads o ++ contents bs').
  Proof.
    unfold Bucket.overflow_step. destruct max_buffered.
    - apply overflow_contents.
    - intros H; inversion H; subst; auto.
  Qed.

  Lemma step_contents bs i x bs' o : step bs i x = Some (bs', o) ->
    Permutation (contents bs ++ [x]) (payloads o ++ contents bs').
  Proof.
    intros H. apply step_inv in H.
    destruct H as (bs1 & j & bs2 & o1 & bs3 & o2 & o3 & F1 & F2 & F3 & F4 & ->).
    pose proof (first_fit_contents _ _ _ _ _ F1) as P1.
    pose proof (complete_step_contents _ _ _ _ F2) as P2.
    pose proof (expire_step_contents _ _ _ _ F3) as P3.
    pose proof (overflow_step_contents _ _ _ F4) as P4.
    rewrite !payloads_app. rewrite <- P1, P2, P3, P4. rewrite <- !app_assoc. reflexivity.
  Qed.

  Lemma flush_contents (bs : list open) :
    Permutation (payloads (map (fun o => release (fst o)) bs)) (contents bs).
  Proof.
    unfold payloads, contents. induction bs as [|[b c] t IHb]; simpl; auto.
    apply Permutation_app; auto. apply release_payload.
  Qed.

  Theorem conservation_gen : forall xs bs i os, run bs i xs = Some os ->
    Permutation (payloads os) (contents bs ++ xs).
  Proof.
    induction xs as [|x r IH]; intros bs i os; simpl.
    - intros H; inversion H; subst. rewrite app_nil_r. apply flush_contents.
    - destruct (step bs i x) as [[bs' o]|] eqn:HS; [|discriminate].
      destruct (run bs' (S i) r) as [os'|] eqn:HR; [|discriminate]. simpl.
      intros H; inversion H; subst. rewrite payloads_app. rewrite (IH _ _ _ HR).
      pose proof (step_contents _ _ _ _ _ HS) as P.
      rewrite app_assoc. rewrite <- P. rewrite <- app_assoc. reflexivity.
  Qed.

  (* ---------- the open-bucket invariant and where outputs come from ---------- *)
  Definition OpenInv (bs : list open) :=
    Forall (fun o => bcomplete (fst o) = false /\ bdata (fst o) <> []) bs.

  Section WithP.
    Variable X : ex -> Prop.          (* what is known about the examples *)
    Variable P : bucket -> Prop.      (* an invariant of the bucket class *)
    Hypothesis P_init : forall x, X x -> P (binit x).
    Hypothesis P_append : forall b x b',
      X x -> P b -> bcomplete b = false -> bappend b x = Some b' -> P b'.

    Definition G (o : open) := bcomplete (fst o) = false /\ bdata (fst o) <> [] /\ P (fst o).
    Definition OutOK (o : outb) :=
      exists b, P b /\ Permutation (payload o) (bdata b) /\ bdata b <> [] /\
                bcomplete b = match o with Emit _ c _ => c | Drop _ _ => false end.

    Lemma first_fit_G x i : X x -> forall bs, Forall G bs ->
      exists bs1 j b c, first_fit bs x i = Some (bs1, j) /\ nth_error bs1 j = Some (b, c) /\
                        bdata b <> [] /\ P b /\ Forall G (remove_nth bs1 j).
    Proof.
      intros Xx. induction bs as [|[b c] r IH]; intros F; simpl.
      - exists [(binit x, i)], 0, (binit x), i. simpl. repeat split; auto.
        rewrite binit_data. discriminate.
      - inversion F as [|? ? [Hc [Hd Hp]] Fr]; subst. simpl in *. rewrite Hc.
        destruct (bappend b x) as [b'|] eqn:E.
        + exists ((b', c) :: r), 0, b', c. simpl. repeat split; eauto.
          rewrite (bappend_data _ _ _ E). intros Z. apply app_eq_nil in Z. destruct Z; discriminate.
        + destruct (IH Fr) as (r1 & j & b1 & c1 & F1 & N & D & Pb & Fg). rewrite F1.
          exists ((b, c) :: r1), (S j), b1, c1. simpl. repeat split; auto.
          constructor; auto. split; auto.
    Qed.

    Lemma release_OK b c : G (b, c) -> OutOK (release b).
    Proof.
      intros (Hc & Hd & Hp). exists b. simpl in *. repeat split; auto.
      - apply release_payload.
      - unfold Bucket.release. destruct drop; auto.
    Qed.

    Lemma complete_step_G bs1 j b c bs2 o1 :
      nth_error bs1 j = Some (b, c) -> bdata b <> [] -> P b -> Forall G (remove_nth bs1 j) ->
      complete_step bs1 j = (bs2, o1) -> Forall G bs2 /\ Forall OutOK o1.
    Proof.
      intros N D Pb F. unfold Bucket.complete_step, Bucket.open in *. rewrite N.
      destruct (bcomplete b) eqn:C; intros H; inversion H; subst.
      - split; auto. constructor; auto. exists b. simpl. repeat split; auto.
      - split; auto. eapply Forall_reinsert; eauto. split; auto.
    Qed.

    Lemma expire_first_G i E : forall bs bs' o, expire_first bs i E = (bs', o) ->
      sub bs' bs /\ (Forall G bs -> Forall OutOK o).
    Proof.
      induction bs as [|[b c] r IH]; simpl; intros bs' o H.
      - inversion H; subst. split; auto. constructor.
      - destruct (E <=? i - c).
        + inversion H; subst. split. apply sub_skip, sub_refl.
          intros F; inversion F; subst. constructor; auto. eapply release_OK; eauto.
        + destruct (expire_first r i E) as [r' o'] eqn:F'. inversion H; subst.
          destruct (IH _ _ eq_refl) as [S1 S2]. split. apply sub_keep; auto.
          intros F; inversion F; subst; auto.
    Qed.

    Lemma expire_step_G i bs bs' o : expire_step bs i = (bs', o) ->
      sub bs' bs /\ (Forall G bs -> Forall OutOK o).
    Proof.
      unfold Bucket.expire_step. destruct expiration.
      - apply expire_first_G.
      - intros H; inversion H; subst. split; auto using sub_refl.
    Qed.

    Lemma overflow_G M : forall fuel bs bs' o, overflow fuel bs M = (bs', o) ->
      sub bs' bs /\ (Forall G bs -> Forall OutOK o).
    Proof.
      induction fuel as [|f IH]; simpl; intros bs bs' o H.
      - inversion H; subst. split; auto using sub_refl.
      - destruct (M <? buffered bs).
        + destruct bs as [|[b c] r]. { inversion H; subst. split; auto. constructor. }
          destruct (overflow f r M) as [r' o'] eqn:F'. inversion H; subst.
          destruct (IH _ _ _ F') as [S1 S2]. split. apply sub_skip; auto.
          intros F; inversion F; subst. constructor; auto. eapply release_OK; eauto.
        + inversion H; subst. split; auto using sub_refl.
    Qed.

    Lemma overflow_step_G bs bs' o : overflow_step bs = (bs', o) ->
      sub bs' bs /\ (Forall G bs -> Forall OutOK o).
    Proof.
      unfold Bucket.overflow_step. destruct max_buffered.
      - apply overflow_G.
      - intros H; inversion H; subst. split; auto using sub_refl.
    Qed.

    Lemma step_G bs i x : X x -> Forall G bs ->
      exists bs' o, step bs i x = Some (bs', o) /\ Forall G bs' /\ Forall OutOK o.
    Proof.
      intros Xx F. destruct (first_fit_G x i Xx bs F) as (bs1 & j & b & c & F1 & N & D & Pb & Fg).
      unfold Bucket.step. rewrite F1.
      destruct (complete_step bs1 j) as [bs2 o1] eqn:F2.
      destruct (expire_step bs2 i) as [bs3 o2] eqn:F3.
      destruct (overflow_step bs3) as [bs4 o3] eqn:F4.
      destruct (complete_step_G _ _ _ _ _ _ N D Pb Fg F2) as [G2 O1].
      destruct (expire_step_G _ _ _ _ F3) as [S3 O2].
      assert (G3 : Forall G bs3) by (eapply sub_Forall; eauto).
      destruct (overflow_step_G _ _ _ F4) as [S4 O3].
      exists bs4, (o1 ++ o2 ++ o3). split; auto. split.
      - eapply sub_Forall; eauto.
      - apply Forall_app; split; auto. apply Forall_app; split; auto.
    Qed.

    Lemma flush_G (bs : list open) : Forall G bs -> Forall OutOK (map (fun o => release (fst o)) bs).
    Proof.
      induction 1 as [|[b c] r H F IH]; simpl; constructor; auto. eapply release_OK; eauto.
    Qed.

    Lemma run_G : forall xs bs i, Forall X xs -> Forall G bs ->
      exists os, run bs i xs = Some os /\ Forall OutOK os.
    Proof.
      induction xs as [|x r IH]; intros bs i FX F; simpl.
      - eexists; split; eauto. apply flush_G; auto.
      - inversion FX; subst.
        destruct (step_G bs i x) as (bs' & o & HS & G' & O); auto. rewrite HS.
        destruct (IH bs' (S i)) as (os & HR & O'); auto. rewrite HR. simpl.
        eexists; split; eauto. apply Forall_app; split; auto.
    Qed.

    (* every output is (a permutation of) the data of a bucket satisfying P *)
    Theorem outputs_from_buckets : forall xs bs i os,
      Forall X xs -> Forall G bs -> run bs i xs = Some os -> Forall OutOK os.
    Proof.
      intros xs bs i os FX F H. destruct (run_G xs bs i FX F) as (os' & H' & O).
      rewrite H in H'. inversion H'; subst; auto.
    Qed.
  End WithP.

  Lemma OpenInv_G bs : OpenInv bs -> Forall (G (fun _ => True)) bs.
  Proof. unfold OpenInv, G. apply Forall_impl. tauto. Qed.

  Lemma G_OpenInv P bs : Forall (G P) bs -> OpenInv bs.
  Proof. unfold OpenInv, G. apply Forall_impl. tauto. Qed.

  Lemma Forall_True {A} (l : list A) : Forall (fun _ => True) l.
  Proof. induction l; auto. Qed.

  (* 1 *)
  Theorem never_asserts : forall xs bs i, OpenInv bs -> run bs i xs <> None.
  Proof.
    intros xs bs i H.
    destruct (run_G (fun _ => True) (fun _ => True)) with (xs := xs) (bs := bs) (i := i)
      as (os & HR & _); auto using Forall_True, OpenInv_G.
    rewrite HR. discriminate.
  Qed.

  Corollary never_asserts0 : forall xs, run [] 0 xs <> None.
  Proof. intros xs. apply never_asserts. constructor. Qed.

  Lemma step_OpenInv bs i x bs' o : OpenInv bs -> step bs i x = Some (bs', o) ->
    OpenInv bs' /\ Forall (fun o => payload o <> []) o.
  Proof.
    intros H HS.
    destruct (step_G (fun _ => True) (fun _ => True)) with (bs := bs) (i := i) (x := x)
      as (bs2 & o2 & HS2 & G2 & O2); auto using OpenInv_G.
    rewrite HS in HS2. inversion HS2; subst. split. eapply G_OpenInv; eauto.
    eapply Forall_impl; [|exact O2]. intros a (b & _ & Pm & D & _) Z. rewrite Z in Pm.
    apply Permutation_nil in Pm. auto.
  Qed.

  (* 2 *)
  Theorem conservation : forall xs bs i os, OpenInv bs -> run bs i xs = Some os ->
    Permutation (payloads os) (contents bs ++ xs).
  Proof. intros. eapply conservation_gen; eauto. Qed.

  Corollary conservation0 : forall xs os, run [] 0 xs = Some os -> Permutation (payloads os) xs.
  Proof. intros xs os H. apply (conservation_gen xs [] 0 os H). Qed.

  (* which kind of output can occur in which drop mode *)
  Definition mode_ok (o : outb) : Prop :=
    match o with Drop _ _ => drop = true | Emit _ false _ => drop = false | Emit _ true _ => True end.

  Lemma release_mode b : mode_ok (release b).
  Proof. unfold Bucket.release. destruct drop eqn:D; simpl; auto. Qed.

  Lemma expire_first_mode i E : forall bs bs' o, expire_first bs i E = (bs', o) -> Forall mode_ok o.
  Proof.
    induction bs as [|[b c] r IH]; simpl; intros bs' o H.
    - inversion H; subst; auto.
    - destruct (E <=? i - c).
      + inversion H; subst. constructor; auto using release_mode.
      + destruct (expire_first r i E) as [r' o'] eqn:F'. inversion H; subst. eauto.
  Qed.

  Lemma overflow_mode M : forall fuel bs bs' o, overflow fuel bs M = (bs', o) -> Forall mode_ok o.
  Proof.
    induction fuel as [|f IH]; simpl; intros bs bs' o H.
    - inversion H; subst; auto.
    - destruct (M <? buffered bs).
      + destruct bs as [|[b c] r]. { inversion H; subst; auto. }
        destruct (overflow f r M) as [r' o'] eqn:F'. inversion H; subst.
        constructor; eauto using release_mode.
      + inversion H; subst; auto.
  Qed.

  Lemma step_mode bs i x bs' o : step bs i x = Some (bs', o) -> Forall mode_ok o.
  Proof.
    intros H. apply step_inv in H.
    destruct H as (bs1 & j & bs2 & o1 & bs3 & o2 & o3 & F1 & F2 & F3 & F4 & ->).
    apply Forall_app; split; [|apply Forall_app; split].
    - unfold Bucket.complete_step in F2. destruct (nth_error bs1 j) as [[b c]|].
      + destruct (bcomplete b); inversion F2; subst; auto. constructor; simpl; auto.
      + inversion F2; subst; auto.
    - unfold Bucket.expire_step in F3. destruct expiration.
      + eapply expire_first_mode; eauto.
      + inversion F3; subst; auto.
    - unfold Bucket.overflow_step in F4. destruct max_buffered.
      + eapply overflow_mode; eauto.
      + inversion F4; subst; auto.
  Qed.

  Theorem run_mode : forall xs bs i os, run bs i xs = Some os -> Forall mode_ok os.
  Proof.
    induction xs as [|x r IH]; intros bs i os; simpl.
    - intros H; inversion H; subst. clear H. induction bs; simpl; constructor; auto using release_mode.
    - destruct (step bs i x) as [[bs' o]|] eqn:HS; [|discriminate].
      destruct (run bs' (S i) r) as [os'|] eqn:HR; [|discriminate]. simpl.
      intros H; inversion H; subst. apply Forall_app; split; eauto using step_mode.
  Qed.

  Lemma payloads_split (os : list outb) :
    Permutation (concat (emitted os) ++ concat (dropped os)) (payloads os).
  Proof.
    unfold payloads. induction os as [|[c l|l] r IH]; simpl; auto.
    - rewrite <- app_assoc. apply Permutation_app_head. exact IH.
    - rewrite <- IH. rewrite !app_assoc. apply Permutation_app_tail. apply Permutation_app_comm.
  Qed.

  Lemma no_drop_dropped (os : list outb) : drop = false -> Forall mode_ok os -> dropped os = [].
  Proof.
    intros D. induction 1 as [|[c l|l] r H F IH]; simpl; auto.
    simpl in H. congruence.
  Qed.

  Corollary conservation_keep : forall xs os, drop = false -> run [] 0 xs = Some os ->
    dropped os = [] /\ Permutation (concat (emitted os)) xs.
  Proof.
    intros xs os D H. pose proof (no_drop_dropped os D (run_mode _ _ _ _ H)) as E. split; auto.
    rewrite <- (conservation0 _ _ H). rewrite <- payloads_split. rewrite E. simpl.
    now rewrite app_nil_r.
  Qed.

  Corollary conservation_drop : forall xs os, drop = true -> run [] 0 xs = Some os ->
    (forall l, ~ In (Emit ex false l) os) /\
    Permutation (concat (emitted os) ++ concat (dropped os)) xs.
  Proof.
    intros xs os D H. split.
    - intros l Hin. pose proof (run_mode _ _ _ _ H) as M. rewrite Forall_forall in M.
      specialize (M _ Hin). simpl in M. congruence.
    - rewrite payloads_split. apply conservation0; auto.
  Qed.

  (* 3 *)
  Theorem release_kinds : forall xs bs i os, OpenInv bs -> run bs i xs = Some os ->
    Forall (fun o => exists b, Permutation (payload o) (bdata b) /\ bdata b <> [] /\
                     bcomplete b = match o with Emit _ c _ => c | Drop _ _ => false end) os.
  Proof.
    intros xs bs i os H HR.
    pose proof (outputs_from_buckets (fun _ => True) (fun _ => True)
                  (fun _ _ => I) (fun _ _ _ _ _ _ _ => I) xs bs i os
                  (Forall_True xs) (OpenInv_G bs H) HR) as O.
    eapply Forall_impl; [|exact O]. intros o (b & _ & R). exists b. exact R.
  Qed.

  (* 5 *)
  Lemma annotate_fst : forall os bs, map fst (annotate os bs) = os.
  Proof. induction os; intros; simpl; f_equal; auto. Qed.

  Theorem run_withheld_fst : forall xs bs i evs,
    run_withheld bs i xs = Some evs -> run bs i xs = Some (map fst evs).
  Proof.
    induction xs as [|x r IH]; intros bs i evs; simpl.
    - intros H; inversion H; subst. now rewrite annotate_fst.
    - destruct (step bs i x) as [[bs' o]|] eqn:HS; [|discriminate].
      destruct (run_withheld bs' (S i) r) as [evs'|] eqn:HR; [|discriminate]. simpl.
      intros H; inversion H; subst. rewrite (IH _ _ _ HR). simpl.
      now rewrite map_app, annotate_fst.
  Qed.

  Lemma run_withheld_none : forall xs bs i, run_withheld bs i xs = None -> run bs i xs = None.
  Proof.
    induction xs as [|x r IH]; intros bs i; simpl; [discriminate|].
    destruct (step bs i x) as [[bs' o]|]; auto.
    destruct (run_withheld bs' (S i) r) eqn:HR; [discriminate|]. intros _.
    rewrite (IH _ _ HR). reflexivity.
  Qed.

  Lemma annotate_bound K : forall os bs, Forall (fun o => payload o <> []) os ->
    length (payloads os) + buffered bs <= S K -> Forall (fun ev => snd ev <= K) (annotate os bs).
  Proof.
    induction os as [|o r IH]; intros bs F L; simpl; auto.
    inversion F; subst. change (payloads (o :: r)) with (payload o ++ payloads r) in L.
    rewrite app_length in L. assert (1 <= length (payload o)) by (destruct (payload o); simpl; [congruence|lia]).
    constructor.
    - simpl. unfold Bucket.withheld_after. fold (payloads r). lia.
    - apply IH; auto. lia.
  Qed.

  Lemma overflow_bound M : forall fuel bs bs' o, length bs <= fuel ->
    overflow fuel bs M = (bs', o) -> buffered bs' <= M.
  Proof.
    induction fuel as [|f IH]; simpl; intros bs bs' o L H.
    - inversion H; subst. destruct bs'; simpl in *; [|lia]. unfold Bucket.buffered; simpl; lia.
    - destruct (M <? buffered bs) eqn:T.
      + destruct bs as [|[b c] r]. { inversion H; subst. unfold Bucket.buffered; simpl; lia. }
        destruct (overflow f r M) as [r' o'] eqn:F'. inversion H; subst.
        eapply IH; eauto. simpl in L; lia.
      + inversion H; subst. apply Nat.ltb_ge in T. exact T.
  Qed.

  Lemma step_withheld M bs i x bs' o : max_buffered = Some M -> OpenInv bs -> buffered bs <= M ->
    step bs i x = Some (bs', o) ->
    OpenInv bs' /\ buffered bs' <= M /\ Forall (fun ev => snd ev <= M) (annotate o bs').
  Proof.
    intros HM Inv B HS. destruct (step_OpenInv _ _ _ _ _ Inv HS) as [Inv' NE].
    pose proof (step_contents _ _ _ _ _ HS) as Pm. apply Permutation_length in Pm.
    rewrite !app_length in Pm. simpl in Pm. rewrite !buffered_contents in *.
    split; auto. split.
    - apply step_inv in HS.
      destruct HS as (bs1 & j & bs2 & o1 & bs3 & o2 & o3 & F1 & F2 & F3 & F4 & ->).
      unfold Bucket.overflow_step in F4. rewrite HM in F4.
      eapply overflow_bound in F4; auto.
    - apply annotate_bound; auto. rewrite buffered_contents. lia.
  Qed.

  Lemma flush_nonempty (bs : list open) : OpenInv bs ->
    Forall (fun o => payload o <> []) (map (fun o => release (fst o)) bs).
  Proof.
    induction 1 as [|[b c] t [_ D] F IH]; simpl; constructor; auto.
    simpl in D. intros Z. pose proof (release_payload b) as Pm. rewrite Z in Pm.
    apply Permutation_nil in Pm. auto.
  Qed.

  Theorem withheld_bound : forall M, max_buffered = Some M -> forall xs bs i evs,
    OpenInv bs -> buffered bs <= M -> run_withheld bs i xs = Some evs ->
    Forall (fun ev => snd ev <= M) evs.
  Proof.
    intros M HM. induction xs as [|x r IH]; intros bs i evs Inv B; simpl.
    - intros H; injection H as <-. apply annotate_bound.
      + apply flush_nonempty; auto.
      + pose proof (flush_contents bs) as Pm. apply Permutation_length in Pm.
        rewrite Pm. rewrite buffered_contents in B. unfold Bucket.buffered; simpl. lia.
    - destruct (step bs i x) as [[bs' o]|] eqn:HS; [|discriminate].
      destruct (run_withheld bs' (S i) r) as [evs'|] eqn:HR; [|discriminate]. simpl.
      intros H; injection H as <-.
      destruct (step_withheld M _ _ _ _ _ HM Inv B HS) as (Inv' & B' & A).
      apply Forall_app; split; eauto.
  Qed.

  (* 4 *)
  Definition ExpInv (E i : nat) (bs : list open) :=
    StronglySorted lt (map snd bs) /\ Forall (fun o => snd o < i /\ i <= snd o + E) bs.

  Lemma first_fit_created x i : forall bs bs1 j, first_fit bs x i = Some (bs1, j) ->
    map snd bs1 = map snd bs \/ map snd bs1 = map snd bs ++ [i].
  Proof.
    induction bs as [|[b c] r IH]; simpl; intros bs1 j H.
    - inversion H; subst. auto.
    - destruct (bcomplete b); [discriminate|]. destruct (bappend b x).
      + inversion H; subst. auto.
      + destruct (first_fit r x i) as [[r' j']|] eqn:F; [|discriminate]. inversion H; subst.
        simpl. destruct (IH _ _ eq_refl) as [-> | ->]; auto.
  Qed.

  Lemma expire_first_exp E i : forall bs bs' o, expire_first bs i E = (bs', o) ->
    StronglySorted lt (map snd bs) -> Forall (fun c => c <= i /\ i <= c + E) (map snd bs) ->
    Forall (fun c => c < S i /\ S i <= c + E) (map snd bs').
  Proof.
    induction bs as [|[b c] r IH]; simpl; intros bs' o H SS F.
    - inversion H; subst; constructor.
    - apply StronglySorted_inv in SS. destruct SS as [SS Hc]. inversion F as [|? ? Fc Fr]; subst.
      destruct (E <=? i - c) eqn:T.
      + inversion H; subst. rewrite Forall_forall in *. intros d Hd.
        specialize (Hc d Hd). specialize (Fr d Hd). lia.
      + destruct (expire_first r i E) as [r' o'] eqn:F'. inversion H; subst. simpl.
        constructor. lia. eapply IH; eauto.
  Qed.

  Theorem expiry_step : forall E, expiration = Some E -> forall bs i x bs' o,
    ExpInv E i bs -> step bs i x = Some (bs', o) -> ExpInv E (S i) bs'.
  Proof.
    intros E HE bs i x bs' o [SS F] HS. apply step_inv in HS.
    destruct HS as (bs1 & j & bs2 & o1 & bs3 & o2 & o3 & F1 & F2 & F3 & F4 & ->).
    apply Forall_map with (f := snd) (P := fun c => c < i /\ i <= c + E) in F.
    assert (M1 : StronglySorted lt (map snd bs1) /\
                 Forall (fun c => c <= i /\ i <= c + E) (map snd bs1)).
    { destruct (first_fit_created _ _ _ _ _ F1) as [-> | ->].
      - split; auto. eapply Forall_impl; [|exact F]. simpl; lia.
      - split.
        + apply SS_snoc; auto. eapply Forall_impl; [|exact F]. simpl; lia.
        + apply Forall_app; split. eapply Forall_impl; [|exact F]. simpl; lia.
          constructor; auto. lia. }
    assert (S2 : sub bs2 bs1).
    { unfold Bucket.complete_step in F2. destruct (nth_error bs1 j) as [[b c]|].
      - destruct (bcomplete b); inversion F2; subst; auto using sub_refl, remove_nth_sub.
      - inversion F2; subst; auto using sub_refl. }
    apply (sub_map snd) in S2. destruct M1 as [SS1 FF1].
    pose proof (sub_SS _ _ _ S2 SS1) as SS2. pose proof (sub_Forall _ _ _ S2 FF1) as FF2.
    unfold Bucket.expire_step in F3. rewrite HE in F3.
    pose proof (expire_first_exp _ _ _ _ _ F3 SS2 FF2) as FF3.
    destruct (expire_first_G (fun _ => True) _ _ _ _ _ F3) as [S3 _].
    apply (sub_map snd) in S3. pose proof (sub_SS _ _ _ S3 SS2) as SS3.
    destruct (overflow_step_G (fun _ => True) _ _ _ F4) as [S4 _]. apply (sub_map snd) in S4.
    split.
    - eapply sub_SS; eauto.
    - apply Forall_map with (f := snd) (P := fun c => c < S i /\ S i <= c + E).
      eapply sub_Forall; eauto.
  Qed.

  Lemma ExpInv_nil E : ExpInv E 0 [].
  Proof. split; constructor. Qed.

  (* readable form: after example number i has been processed, every open bucket is younger than E *)
  Lemma ExpInv_age E i bs : ExpInv E (S i) bs -> Forall (fun o => snd o <= i /\ i - snd o < E) bs.
  Proof. intros [_ F]. eapply Forall_impl; [|exact F]. simpl. lia. Qed.
End Generic.

(* ====================================================================================== *)
(* PART 2: DynamicTimeSeriesBucket over exact rationals                                    *)
(* ====================================================================================== *)
Lemma ins_by_perm leb x : forall l, Permutation (ins_by leb x l) (x :: l).
Proof.
  induction l as [|y t IH]; simpl; auto. destruct (leb x y); auto.
  rewrite IH. apply perm_swap.
Qed.

Lemma stable_sort_perm leb : forall l, Permutation (stable_sort leb l) l.
Proof.
  unfold stable_sort. induction l as [|x t IH]; simpl; auto.
  rewrite ins_by_perm. auto.
Qed.

Section TimeSeriesProofs.
  Local Open Scope Q_scope.
  Variable batch_size : nat.
  Variable rate : Q.
  Variable mts : option Q.
  Hypothesis bs_pos : (1 <= batch_size)%nat.
  Hypothesis rate_lo : 0 <= rate.
  Hypothesis rate_hi : rate < 1.

  (* ---------- small facts about Qmax'/Qmin' and 1 - rate ---------- *)
  Lemma Qle_bool_false a b : Qle_bool a b = false -> b <= a.
  Proof.
    intros E. apply Qlt_le_weak, Qnot_le_lt. intros H. apply Qle_bool_iff in H. congruence.
  Qed.

  Lemma Qmax'_l a b : a <= Qmax' a b.
  Proof. unfold Qmax'. destruct (Qle_bool a b) eqn:E. apply Qle_bool_iff; auto. apply Qle_refl. Qed.
  Lemma Qmax'_r a b : b <= Qmax' a b.
  Proof. unfold Qmax'. destruct (Qle_bool a b) eqn:E. apply Qle_refl. apply Qle_bool_false; auto. Qed.
  Lemma Qmax'_cases a b : Qmax' a b = a \/ Qmax' a b = b.
  Proof. unfold Qmax'. destruct (Qle_bool a b); auto. Qed.
  Lemma Qmin'_l a b : Qmin' a b <= a.
  Proof. unfold Qmin'. destruct (Qle_bool a b) eqn:E. apply Qle_refl. apply Qle_bool_false; auto. Qed.
  Lemma Qmin'_r a b : Qmin' a b <= b.
  Proof. unfold Qmin'. destruct (Qle_bool a b) eqn:E. apply Qle_bool_iff; auto. apply Qle_refl. Qed.
  Lemma Qmin'_cases a b : Qmin' a b = a \/ Qmin' a b = b.
  Proof. unfold Qmin'. destruct (Qle_bool a b); auto. Qed.

  Lemma q_pos : 0 < 1 - rate.
  Proof. lra. Qed.
  Lemma q_nonneg : 0 <= 1 - rate.
  Proof. lra. Qed.
  Lemma mul_q_le x : 0 <= x -> x * (1 - rate) <= x.
  Proof. intros H. nra. Qed.
  Lemma div_mul_q x : x / (1 - rate) * (1 - rate) == x.
  Proof. field. intros H. lra. Qed.
  Lemma le_div_q x : 0 <= x -> x <= x / (1 - rate).
  Proof. intros H. apply Qle_shift_div_l. apply q_pos. apply mul_q_le; auto. Qed.
  Lemma qlen_nonneg n : 0 <= qlen n.
  Proof. unfold qlen, Qle. simpl. lia. Qed.

  (* ---------- the data laws of PART 1 hold for the time series bucket ---------- *)
  Lemma ts_init_data x : tdata (ts_init rate x) = [x].
  Proof. reflexivity. Qed.
  Lemma ts_append_data b x b' : ts_append rate mts b x = Some b' -> tdata b' = tdata b ++ [x].
  Proof. unfold ts_append. destruct (ts_assess mts b x); intros H; inversion H; reflexivity. Qed.

  (* ---------- the per-bucket invariant ---------- *)
  Definition TsInv (b : tsb) : Prop :=
    tdata b <> [] /\ (length (tdata b) <= batch_size)%nat /\
    Forall (fun m => tlower b <= snd m /\ snd m <= tupper b /\ snd m * (1 - rate) <= tlower b /\
                     tupper b * (1 - rate) <= snd m /\ snd m <= tmax b) (tdata b) /\
    (exists m, In m (tdata b) /\ snd m == tmax b) /\
    match mts with
    | Some mx => (1 < length (tdata b))%nat -> qlen (length (tdata b)) * tmax b <= mx
    | None => True
    end.

  Lemma TsInv_init x : 0 <= snd x -> TsInv (ts_init rate x).
  Proof.
    intros Hx. unfold TsInv, ts_init; simpl.
    split; [discriminate|]. split; [exact bs_pos|]. split; [|split].
    - constructor; [|constructor]. repeat split.
      + apply mul_q_le; auto.
      + apply le_div_q; auto.
      + apply Qle_refl.
      + rewrite div_mul_q. apply Qle_refl.
      + apply Qle_refl.
    - exists x. split; auto. reflexivity.
    - destruct mts; auto. intros H. lia.
  Qed.

  Lemma TsInv_append b x b' : 0 <= snd x -> TsInv b -> ts_complete batch_size mts b = false ->
    ts_append rate mts b x = Some b' -> TsInv b'.
  Proof.
    intros Hx. destruct b as [d lo up mx]. unfold TsInv, ts_complete, ts_append, ts_assess; simpl.
    intros (Hne & Hlen & Hall & (m0 & Hin0 & Hm0) & Hm) C.
    apply orb_false_iff in C. destruct C as [C1 _]. apply Nat.leb_gt in C1.
    match goal with |- (if ?c then _ else _) = _ -> _ => destruct c eqn:A; [|discriminate] end.
    apply andb_true_iff in A. destruct A as [A A3]. apply andb_true_iff in A. destruct A as [A1 A2].
    apply Qle_bool_iff in A2. apply Qle_bool_iff in A3.
    intros H; inversion H; subst; clear H. simpl.
    pose proof q_nonneg as Hq.
    split; [|split; [|split; [|split]]].
    - destruct d; discriminate.
    - rewrite app_length. simpl. lia.
    - apply Forall_app; split.
      + eapply Forall_impl; [|exact Hall]. intros m (H1 & H2 & H3 & H4 & H5). repeat split.
        * destruct (Qmax'_cases lo (snd x * (1 - rate))) as [-> | ->]; auto.
          apply Qle_trans with (up * (1 - rate)); auto. apply Qmult_le_compat_r; auto.
        * destruct (Qmin'_cases up (snd x / (1 - rate))) as [-> | ->]; auto.
          apply Qle_shift_div_l. apply q_pos. apply Qle_trans with lo; auto.
        * apply Qle_trans with lo; auto. apply Qmax'_l.
        * apply Qle_trans with (up * (1 - rate)); auto. apply Qmult_le_compat_r; auto.
          apply Qmin'_l.
        * apply Qle_trans with mx; auto. apply Qmax'_l.
      + constructor; [|constructor]. repeat split.
        * destruct (Qmax'_cases lo (snd x * (1 - rate))) as [-> | ->]; auto.
          apply mul_q_le; auto.
        * destruct (Qmin'_cases up (snd x / (1 - rate))) as [-> | ->]; auto.
          apply le_div_q; auto.
        * apply Qmax'_r.
        * apply Qle_trans with (snd x / (1 - rate) * (1 - rate)).
          apply Qmult_le_compat_r; auto. apply Qmin'_r.
          rewrite div_mul_q. apply Qle_refl.
        * apply Qmax'_r.
    - destruct (Qmax'_cases mx (snd x)) as [-> | ->].
      + exists m0. split; auto. apply in_or_app; auto.
      + exists x. split. apply in_or_app; right; left; auto. reflexivity.
    - destruct mts as [M|]; auto. intros _.
      unfold Qlt_bool' in A1. rewrite negb_involutive in A1. apply Qle_bool_iff in A1.
      rewrite app_length. simpl length. rewrite Nat.add_1_r. exact A1.
  Qed.

  (* ---------- the run, for any expiration / max_buffered / drop mode / permuting sort ---------- *)
  Variable expiration max_buffered : option nat.
  Variable drop : bool.
  Variable srt : list tex -> list tex.
  Hypothesis srt_perm : forall l, Permutation (srt l) l.

  Local Notation trun :=
    (run tex tsb tdata (ts_init rate) (ts_append rate mts) (ts_complete batch_size mts)
         expiration max_buffered drop srt).
  Local Notation trun_withheld :=
    (run_withheld tex tsb tdata (ts_init rate) (ts_append rate mts) (ts_complete batch_size mts)
         expiration max_buffered drop srt).

  Theorem ts_never_asserts : forall xs, trun [] 0 xs <> None.
  Proof.
    intros xs. apply never_asserts0; auto using ts_init_data, ts_append_data.
  Qed.

  Theorem ts_conservation : forall xs os, trun [] 0 xs = Some os -> Permutation (payloads tex os) xs.
  Proof.
    intros xs os. apply conservation0; auto using ts_init_data, ts_append_data.
  Qed.

  Theorem ts_withheld_bound : forall M xs evs, max_buffered = Some M ->
    trun_withheld [] 0 xs = Some evs -> Forall (fun ev => (snd ev <= M)%nat) evs.
  Proof.
    intros M xs evs HM H.
    eapply (withheld_bound tex tsb tdata (ts_init rate) (ts_append rate mts)
              (ts_complete batch_size mts) expiration max_buffered drop srt
              ts_init_data ts_append_data srt_perm M HM xs [] 0%nat evs); auto.
    - constructor.
    - unfold buffered. simpl. lia.
  Qed.

  Lemma emitted_bucket xs os l : Forall (fun x => 0 <= snd x) xs -> trun [] 0 xs = Some os ->
    In l (emitted tex os) -> exists b, TsInv b /\ Permutation l (tdata b).
  Proof.
    intros FX H Hin.
    pose proof (outputs_from_buckets tex tsb tdata (ts_init rate) (ts_append rate mts)
                  (ts_complete batch_size mts) expiration max_buffered drop srt
                  ts_init_data ts_append_data srt_perm
                  (fun x => 0 <= snd x) TsInv TsInv_init TsInv_append
                  xs [] 0%nat os FX (Forall_nil _) H) as O.
    unfold emitted in Hin. apply in_flat_map in Hin. destruct Hin as (o & Ho & Hl).
    rewrite Forall_forall in O. specialize (O _ Ho). destruct O as (b & Pb & Pm & _).
    destruct o as [c l0|l0]; simpl in Hl; [|contradiction].
    destruct Hl as [<- |[]]. exists b. split; auto.
  Qed.

  (* 6 *)
  Theorem batch_shape : forall xs os l, Forall (fun x => 0 <= snd x) xs -> trun [] 0 xs = Some os ->
    In l (emitted tex os) -> l <> [] /\ (length l <= batch_size)%nat.
  Proof.
    intros xs os l FX H Hin. destruct (emitted_bucket _ _ _ FX H Hin) as (b & (Hne & Hlen & _) & Pm).
    split.
    - intros ->. apply Permutation_nil in Pm. auto.
    - rewrite (Permutation_length Pm). exact Hlen.
  Qed.

  (* 7 *)
  Theorem padding_bound : forall xs os l, Forall (fun x => 0 <= snd x) xs -> trun [] 0 xs = Some os ->
    In l (emitted tex os) -> forall m m', In m l -> In m' l -> snd m' * (1 - rate) <= snd m.
  Proof.
    intros xs os l FX H Hin m m' Hm Hm'.
    destruct (emitted_bucket _ _ _ FX H Hin) as (b & (_ & _ & Hall & _) & Pm).
    rewrite Forall_forall in Hall.
    pose proof (Hall _ (Permutation_in _ Pm Hm)) as (H1 & _).
    pose proof (Hall _ (Permutation_in _ Pm Hm')) as (_ & _ & H3 & _).
    eapply Qle_trans; eauto.
  Qed.

  (* 8 *)
  Theorem total_size_bound : forall xs os l, Forall (fun x => 0 <= snd x) xs -> trun [] 0 xs = Some os ->
    In l (emitted tex os) -> forall mx, mts = Some mx -> (1 < length l)%nat ->
    forall m, In m l -> qlen (length l) * snd m <= mx.
  Proof.
    intros xs os l FX H Hin mx Hmts Hl m Hm.
    destruct (emitted_bucket _ _ _ FX H Hin) as (b & (_ & _ & Hall & _ & Hmx) & Pm).
    rewrite Hmts in Hmx. rewrite (Permutation_length Pm) in *. specialize (Hmx Hl).
    rewrite Forall_forall in Hall.
    pose proof (Hall _ (Permutation_in _ Pm Hm)) as (_ & _ & _ & _ & H5).
    eapply Qle_trans; [|exact Hmx]. rewrite !(Qmult_comm (qlen _)).
    apply Qmult_le_compat_r; auto. apply qlen_nonneg.
  Qed.
End TimeSeriesProofs.

(* ---------- the configuration the tie runs (Bucket.ts_run) ---------- *)
Definition ts_srt (sortmode : nat) : list tex -> list tex :=
  match sortmode with
  | O => fun l => l
  | 1%nat => stable_sort by_len
  | _ => stable_sort by_len_rev
  end.

Lemma ts_srt_perm sortmode : forall l, Permutation (ts_srt sortmode l) l.
Proof.
  destruct sortmode as [|[|n]]; simpl; intros l; auto using stable_sort_perm.
Qed.

Lemma ts_run_eq batch_size rate mts expiration max_buffered drop sortmode xs :
  ts_run batch_size rate mts expiration max_buffered drop sortmode xs =
  run_withheld tex tsb tdata (ts_init rate) (ts_append rate mts) (ts_complete batch_size mts)
               expiration max_buffered drop (ts_srt sortmode) [] 0 xs.
Proof. reflexivity. Qed.

(* everything at once for ts_run: it never hits the assertion, hands over or drops exactly the input,
   respects max_buffered_examples, and every emitted batch has the promised shape *)
Theorem ts_run_spec : forall batch_size rate mts expiration max_buffered drop sortmode xs,
  (1 <= batch_size)%nat -> (0 <= rate)%Q -> (rate < 1)%Q ->
  exists evs,
    ts_run batch_size rate mts expiration max_buffered drop sortmode xs = Some evs /\
    Permutation (payloads tex (map fst evs)) xs /\
    (forall M, max_buffered = Some M -> Forall (fun ev => snd ev <= M) evs) /\
    (Forall (fun x => (0 <= snd x)%Q) xs -> forall l, In l (emitted tex (map fst evs)) ->
       (l <> [] /\ length l <= batch_size) /\
       (forall m m', In m l -> In m' l -> (snd m' * (1 - rate) <= snd m)%Q) /\
       (forall mx, mts = Some mx -> 1 < length l -> forall m, In m l -> (qlen (length l) * snd m <= mx)%Q)).
Proof.
  intros batch_size rate mts expiration max_buffered drop sortmode xs Hb Hr0 Hr1.
  rewrite ts_run_eq.
  destruct (run_withheld tex tsb tdata (ts_init rate) (ts_append rate mts) (ts_complete batch_size mts)
              expiration max_buffered drop (ts_srt sortmode) [] 0 xs) as [evs|] eqn:HW.
  - pose proof (run_withheld_fst _ _ _ _ _ _ _ _ _ _ _ _ _ _ HW) as HR.
    exists evs. split; auto. split; [|split].
    + eapply ts_conservation; eauto using ts_srt_perm.
    + intros M HM. eapply ts_withheld_bound; eauto using ts_srt_perm.
    + intros FX l Hin. split; [|split].
      * eapply batch_shape; eauto using ts_srt_perm.
      * eapply padding_bound; eauto using ts_srt_perm.
      * eapply total_size_bound; eauto using ts_srt_perm.
  - exfalso. apply run_withheld_none in HW. revert HW.
    apply ts_never_asserts. apply ts_srt_perm.
Qed.

(* ---------- F11: the originally pinned assess() ignored the new example's own length ---------- *)
Definition ts_assess_old (b : tsb) (x : tex) : bool :=
  Qle_bool (tlower b) (snd x) && Qle_bool (snd x) (tupper b).
Definition ts_append_old (rate : Q) (b : tsb) (x : tex) : option tsb :=
  if ts_assess_old b x then
    Some (mkTsb (tdata b ++ [x]) (Qmax' (tlower b) (snd x * (1 - rate)))
                (Qmin' (tupper b) (snd x / (1 - rate))) (Qmax' (tmax b) (snd x)))
  else None.

Definition f11_xs : list tex := [(0, 1%Q); (1, 3%Q)].

(* old code: batch_size 2, max_padding_rate 9/10, max_total_size 4; lengths 1 and 3 end up in one
   batch whose total size 2 * 3 = 6 exceeds 4 *)
Example f11_before_fix :
  run tex tsb tdata (ts_init (9 # 10)) (ts_append_old (9 # 10)) (ts_complete 2 (Some 4%Q))
      None None false (fun l => l) [] 0 f11_xs = Some [Emit tex true f11_xs]
  /\ Qlt_bool' 4 (qlen (length f11_xs) * 3) = true.
Proof. vm_compute. split; reflexivity. Qed.

(* repaired code: 3 is refused by the bucket holding 1 (2 * max(1,3) = 6 > 4) and opens its own bucket,
   which is complete at once because a second example of that length would not fit *)
Example f11_after_fix :
  run tex tsb tdata (ts_init (9 # 10)) (ts_append (9 # 10) (Some 4%Q)) (ts_complete 2 (Some 4%Q))
      None None false (fun l => l) [] 0 f11_xs
  = Some [Emit tex true [(1, 3%Q)]; Emit tex false [(0, 1%Q)]].
Proof. vm_compute. reflexivity. Qed.

Print Assumptions never_asserts.
Print Assumptions never_asserts0.
Print Assumptions conservation.
Print Assumptions conservation0.
Print Assumptions conservation_keep.
Print Assumptions conservation_drop.
Print Assumptions run_mode.
Print Assumptions outputs_from_buckets.
Print Assumptions release_kinds.
Print Assumptions expiry_step.
Print Assumptions ExpInv_age.
Print Assumptions withheld_bound.
Print Assumptions run_withheld_fst.
Print Assumptions run_withheld_none.
Print Assumptions TsInv_init.
Print Assumptions TsInv_append.
Print Assumptions ts_never_asserts.
Print Assumptions ts_conservation.
Print Assumptions ts_withheld_bound.
Print Assumptions batch_shape.
Print Assumptions padding_bound.
Print Assumptions total_size_bound.
Print Assumptions ts_run_spec.
Print Assumptions f11_before_fix.
Print Assumptions f11_after_fix.
