(* BuildExtra.v - further factory-level models: groupby, split (all shards), and the independent
   list-level reference of Python slicing used by the C16 "slices compose like list slices" law. *)
From Coq Require Import String.
From Coq Require Import List Arith ZArith Bool Lia.
Require Import LD.Base LD.PySlice LD.Pipeline LD.Build.
Import ListNotations.
Open Scope Z_scope.

(* Dataset.groupby(group_fn): {k: self[indices]} in order of first occurrence; indices ascending *)
Definition skey_eqb (a b : skey) : bool :=
  match a, b with KInt x, KInt y => x =? y | KStr s, KStr t => String.eqb s t | _, _ => false end.
Fixpoint group_add (k : skey) (i : nat) (gs : list (skey * list nat)) : list (skey * list nat) :=
  match gs with
  | [] => [(k, [i])]
  | (k', l) :: r => if skey_eqb k k' then (k', l ++ [i]) :: r else (k', l) :: group_add k i r
  end.
Definition group_positions (ids : list skey) : list (skey * list nat) :=
  fold_left (fun gs ki => group_add (fst ki) (snd ki) gs) (combine ids (seq 0 (length ids))) [].
Definition groupby (gf : val -> res val) (d : ds) : res (list (skey * ds)) :=
  do vs <- trace_res (iter_ false (DMap gf d));
  do ids <- mapM to_skey vs;
  mapM (fun g => do s <- mk_slice (SlInts (map Z.of_nat (snd g))) d; Ok (fst g, s)) (group_positions ids).

(* Dataset.split(k): all shards *)
Definition split_all (k : Z) (d : ds) : res (list ds) :=
  do n <- len_ d;
  do parts <- split_indices n k;
  if negb (indexable d) then Err (lib ERuntime) else Ok (map (fun idx => DSlice idx d) parts).

(* Python list slicing l[a:b:c] written WITHOUT index arithmetic on the result: take the window
   with firstn/skipn, then every |c|-th element (of the reversed window for negative steps) *)
Fixpoint every_nth {A} (fuel step : nat) (l : list A) : list A :=
  match fuel with
  | O => []
  | S f => match l with
           | [] => []
           | x :: _ => x :: every_nth f step (skipn step l)
           end
  end.
Definition py_list_slice {A} (l : list A) (a b : option Z) (c : Z) : list A :=
  let n := Z.of_nat (length l) in
  let lo := clamp_start n c a in
  let hi := clamp_stop n c b in
  if 0 <? c then
    every_nth (length l) (Z.to_nat c) (firstn (Z.to_nat (hi - lo)) (skipn (Z.to_nat lo) l))
  else
    (* negative step: positions lo, lo+c, ... > hi, i.e. the reversed window (hi, lo] *)
    every_nth (length l) (Z.to_nat (- c)) (rev (firstn (Z.to_nat (lo - hi)) (skipn (Z.to_nat (hi + 1)) l))).
