(* DatabaseTie.v - correspondence helpers for Model G *)
From Coq Require Import String.
From Coq Require Import List Arith ZArith Bool.
Require Import LD.Base LD.Database.
Import ListNotations.

Inductive request := RName (n : string) | RList (l : list string).
(* answer: the items of the resulting dataset, or "some error" *)
Definition answer := option (list (key * val)).
Definition answer_eqb (a b : answer) : bool :=
  match a, b with
  | None, None => true
  | Some x, Some y => list_eqb (fun p q => String.eqb (fst p) (fst q) && val_eqb (snd p) (snd q)) x y
  | _, _ => false
  end.
Definition ask (d : db) (r : request) : answer :=
  match (match r with RName n => get_dataset1 d n | RList l => get_dataset_list d l end) with
  | Ok t => Some t | Err _ => None end.
(* a case: parts, requests with the implementation's answers; None for the whole list = construction refused *)
Definition gcase := (list part * option (list (request * answer)))%type.
Definition gcase_ok (c : gcase) : bool :=
  match merge (fst c), snd c with
  | Err _, None => true
  | Ok d, Some qs => forallb (fun qa => answer_eqb (ask d (fst qa)) (snd qa)) qs
  | _, _ => false
  end.
Fixpoint gbad (j : nat) (cs : list gcase) : list nat :=
  match cs with [] => [] | c :: r => if gcase_ok c then gbad (S j) r else j :: gbad (S j) r end.

(* heap: initial heap, part addresses, expected: (datasets entries, alias entries) of the merged description as (name, tag) *)
Definition cell_eqb (a b : cell) : bool :=
  match a, b with CAtom x, CAtom y => Nat.eqb x y | CRef x, CRef y => Nat.eqb x y | _, _ => false end.
Definition obj_eqb (a b : obj) : bool := list_eqb (fun p q => String.eqb (fst p) (fst q) && cell_eqb (snd p) (snd q)) a b.
Definition hcase := (heap * list nat * option (obj * option obj * list string))%type.
Definition hcase_ok (c : hcase) : bool :=
  let '(h, parts, exp) := c in
  match hmerge h parts, exp with
  | None, None => true
  | Some (h', res), Some (eds, eal, topkeys) =>
      let top := hget h' res in
      list_eqb String.eqb (dkeys top) topkeys &&
      match ref_of top "datasets"%string with Some a => obj_eqb (hget h' a) eds | None => false end &&
      match ref_of top "alias"%string, eal with
      | Some a, Some e => obj_eqb (hget h' a) e
      | None, None => true
      | _, _ => false
      end &&
      (* frame, checked on the concrete run as well *)
      forallb (fun a => obj_eqb (hget h' a) (hget h a)) (seq 0 (List.length h))
  | _, _ => false
  end.
Fixpoint hbad (j : nat) (cs : list hcase) : list nat :=
  match cs with [] => [] | c :: r => if hcase_ok c then hbad (S j) r else j :: hbad (S j) r end.
