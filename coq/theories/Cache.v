(* Cache.v - Model C: CacheDataset (memory) and DiskCacheDataset as state machines over access histories.
   The upstream pipeline is an oracle `up i c`: what computing example i returns on its c-th evaluation
   (deterministic pipelines ignore c; "freshly random per call" ones do not).  Memory is an oracle stream
   consulted by check().  Definitions only; proofs in CacheProofs.v. *)
From Coq Require Import List Arith ZArith Bool Lia.
Import ListNotations.

Section Mem.
  Variable V : Type.
  Variable n : nat.                       (* len(input_dataset) *)
  Variable up : nat -> nat -> V.          (* index -> call number -> value *)
  Variable limited : bool.                (* keep_mem_free is not None (the default "8 GB" => true) *)

  Record mstate := mkM {
    cache : list (nat * V);               (* _CacheWrapper.cache, shared by all copies *)
    latches : list bool;                  (* per handle: _do_cache (instance attribute, NOT shared by copies) *)
    calls : list nat;                     (* per index: how often the upstream computed it *)
    mem : list bool                       (* remaining answers of `available > keep_mem_free` *)
  }.
  Definition minit (m : list bool) : mstate := mkM [] [true] (repeat 0 n) m.

  Inductive mop := MGet (h : nat) (i : Z) | MCopy (h : nat) | MIter (h : nat).
  Inductive mout := MVal (v : V) | MIndexError | MNoHandle | MNewHandle (h : nat) | MVals (l : list V).

  Fixpoint lookup (i : nat) (c : list (nat * V)) : option V :=
    match c with [] => None | (j, v) :: r => if j =? i then Some v else lookup i r end.
  Fixpoint set_nth {A} (l : list A) (i : nat) (a : A) : list A :=
    match l, i with [] , _ => [] | _ :: r, O => a :: r | x :: r, S i' => x :: set_nth r i' a end.

  (* ds[z] with z of either sign: normalise, IndexError outside [-n, n) *)
  Definition norm (z : Z) : option nat :=
    let j := if (z <? 0)%Z then (z + Z.of_nat n)%Z else z in
    if (j <? 0)%Z || (Z.of_nat n <=? j)%Z then None else Some (Z.to_nat j).

  (* check(): (may we store?, new latch of the handle, remaining oracle) *)
  Definition check (l : bool) (m : list bool) : bool * bool * list bool :=
    if negb limited then (true, l, m)
    else if negb l then (false, l, m)
    else match m with
         | [] => (true, l, [])                  (* oracle exhausted: memory is fine *)
         | true :: r => (true, l, r)
         | false :: r => (false, false, r)      (* threshold crossed: latch *)
         end.

  Definition get1 (s : mstate) (h : nat) (j : nat) : mstate * V :=
    match lookup j (cache s) with
    | Some v => (s, v)
    | None =>
        let c := nth j (calls s) 0 in
        let v := up j c in
        let '(store, l', m') := check (nth h (latches s) true) (mem s) in
        (mkM (if store then (j, v) :: cache s else cache s) (set_nth (latches s) h l')
             (set_nth (calls s) j (S c)) m', v)
    end.

  Fixpoint iter_from (s : mstate) (h : nat) (js : list nat) : mstate * list V :=
    match js with
    | [] => (s, [])
    | j :: r => let '(s1, v) := get1 s h j in let '(s2, vs) := iter_from s1 h r in (s2, v :: vs)
    end.

  Definition mstep (s : mstate) (o : mop) : mstate * mout :=
    match o with
    | MGet h z =>
        if length (latches s) <=? h then (s, MNoHandle) else
        match norm z with
        | None => (s, MIndexError)
        | Some j => let '(s', v) := get1 s h j in (s', MVal v)
        end
    | MCopy h =>
        if length (latches s) <=? h then (s, MNoHandle) else
        (* copy shares the cache; its _do_cache starts out True again (class attribute) *)
        (mkM (cache s) (latches s ++ [true]) (calls s) (mem s), MNewHandle (length (latches s)))
    | MIter h =>
        if length (latches s) <=? h then (s, MNoHandle) else
        let '(s', vs) := iter_from s h (seq 0 n) in (s', MVals vs)
    end.

  Fixpoint mrun (s : mstate) (ops : list mop) : mstate * list mout :=
    match ops with
    | [] => (s, [])
    | o :: r => let '(s1, x) := mstep s o in let '(s2, xs) := mrun s1 r in (s2, x :: xs)
    end.
End Mem.

(* ---------------------------------------------------------------- disk cache *)
Section Disk.
  Variable V : Type.
  Variable n : nat.
  Variable up : nat -> V.                 (* deterministic upstream pipeline *)

  (* one directory; wrappers are reference counted (a dataset and its copies share one wrapper) *)
  Record wrapper := mkW { w_clear : bool; w_refs : nat; w_alive : bool }.
  Record dstate := mkD {
    dir : option (list (nat * V));        (* None = the directory does not exist *)
    wrappers : list wrapper;
    handles : list (option nat);          (* handle -> wrapper id, None once released *)
    dcalls : list nat
  }.
  Definition dinit : dstate := mkD None [] [] (repeat 0 n).

  Inductive dop :=
  | DOpen (reuse clear : bool) | DGet (h : nat) (i : Z) | DCopyH (h : nat) | DRelease (h : nat)
  | DKill.                                 (* the process dies: no __del__ runs, the directory stays *)
  Inductive dout := DVal (v : V) | DIndexError | DNoHandle | DNew (h : nat) | DRefused | DDone.

  Fixpoint dlookup (i : nat) (c : list (nat * V)) : option V :=
    match c with [] => None | (j, v) :: r => if j =? i then Some v else dlookup i r end.
  Definition dnorm (z : Z) : option nat :=
    let j := if (z <? 0)%Z then (z + Z.of_nat n)%Z else z in
    if (j <? 0)%Z || (Z.of_nat n <=? j)%Z then None else Some (Z.to_nat j).
  Fixpoint dset {A} (l : list A) (i : nat) (a : A) : list A :=
    match l, i with [], _ => [] | _ :: r, O => a :: r | x :: r, S i' => x :: dset r i' a end.

  Definition wrapper_of (s : dstate) (h : nat) : option (nat * wrapper) :=
    match nth_error (handles s) h with
    | Some (Some w) => match nth_error (wrappers s) w with
                       | Some wr => if w_alive wr then Some (w, wr) else None
                       | None => None
                       end
    | _ => None
    end.

  Definition dstep (s : dstate) (o : dop) : dstate * dout :=
    match o with
    | DOpen reuse clear =>
        (* diskcache.Cache(dir) creates the directory and its database: it is non-empty from then on *)
        match dir s with
        | Some _ => if reuse
                    then (mkD (dir s) (wrappers s ++ [mkW clear 1 true]) (handles s ++ [Some (length (wrappers s))]) (dcalls s),
                          DNew (length (handles s)))
                    else (s, DRefused)
        | None => (mkD (Some []) (wrappers s ++ [mkW clear 1 true]) (handles s ++ [Some (length (wrappers s))]) (dcalls s),
                   DNew (length (handles s)))
        end
    | DGet h z =>
        match wrapper_of s h with
        | None => (s, DNoHandle)
        | Some _ =>
            match dnorm z with
            | None => (s, DIndexError)
            | Some j =>
                match dir s with
                | None => (s, DNoHandle)
                | Some c =>
                    match dlookup j c with
                    | Some v => (s, DVal v)
                    | None => (mkD (Some ((j, up j) :: c)) (wrappers s) (handles s)
                                   (dset (dcalls s) j (S (nth j (dcalls s) 0))), DVal (up j))
                    end
                end
            end
        end
    | DCopyH h =>
        match wrapper_of s h with
        | None => (s, DNoHandle)
        | Some (w, wr) =>
            (mkD (dir s) (dset (wrappers s) w (mkW (w_clear wr) (S (w_refs wr)) true)) (handles s ++ [Some w]) (dcalls s),
             DNew (length (handles s)))
        end
    | DRelease h =>
        match wrapper_of s h with
        | None => (s, DNoHandle)
        | Some (w, wr) =>
            let hs := dset (handles s) h None in
            if w_refs wr =? 1
            then (* last reference: __del__ closes the cache and removes the directory iff clear *)
                 (mkD (if w_clear wr then None else dir s) (dset (wrappers s) w (mkW (w_clear wr) 0 false)) hs (dcalls s), DDone)
            else (mkD (dir s) (dset (wrappers s) w (mkW (w_clear wr) (w_refs wr - 1) true)) hs (dcalls s), DDone)
        end
    | DKill =>
        (* volatile state is gone; what was stored in the directory stays; call counters restart in the new process *)
        (mkD (dir s) (map (fun wr => mkW (w_clear wr) 0 false) (wrappers s)) (map (fun _ => None) (handles s)) (repeat 0 n), DDone)
    end.

  Fixpoint drun (s : dstate) (ops : list dop) : dstate * list dout :=
    match ops with
    | [] => (s, [])
    | o :: r => let '(s1, x) := dstep s o in let '(s2, xs) := drun s1 r in (s2, x :: xs)
    end.
End Disk.
