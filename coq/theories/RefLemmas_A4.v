(* RefLemmas_A4.v - per-stage agreement lemmas for DKeyZip and DIntersperse. *)
From Coq Require Import String.
From Coq Require Import List Arith ZArith Bool Lia ZifyBool ZifyNat.
Require Import LD.Base LD.PySlice LD.Pipeline LD.Ref.
Import ListNotations.
Open Scope Z_scope.

(* ================================================================== generic helpers *)

Lemma A4_omapM_cons {A B} (f : A -> option B) a l :
  omapM f (a :: l) = obind (f a) (fun b => obind (omapM f l) (fun r => Some (b :: r))).
Proof. reflexivity. Qed.

Lemma A4_mapM_cons {A B} (f : A -> res B) a l :
  mapM f (a :: l) = (do b <- f a; do r <- mapM f l; Ok (b :: r)).
Proof. reflexivity. Qed.

Lemma A4_omapM_Forall2 {A B} (f : A -> option B) l r :
  omapM f l = Some r -> Forall2 (fun a b => f a = Some b) l r.
Proof.
  revert r; induction l as [|a l IH]; intros r H.
  - simpl in H. inversion H; constructor.
  - rewrite A4_omapM_cons in H.
    destruct (f a) as [b|] eqn:Hf; simpl in H; try discriminate.
    destruct (omapM f l) as [r'|] eqn:Hr; simpl in H; try discriminate.
    inversion H; subst. constructor; auto.
Qed.

Lemma A4_Forall2_length {A B} (R : A -> B -> Prop) l r :
  Forall2 R l r -> length l = length r.
Proof. induction 1; simpl; congruence. Qed.

Lemma A4_Forall2_In_l {A B} (R : A -> B -> Prop) l r a :
  Forall2 R l r -> In a l -> exists b, In b r /\ R a b.
Proof.
  induction 1 as [|x y l r HR _ IH]; simpl; intros Hin; [contradiction|].
  destruct Hin as [<-|Hin].
  - exists y; auto.
  - destruct (IH Hin) as (b & Hb & HRb). exists b; auto.
Qed.

Lemma A4_Forall2_In_r {A B} (R : A -> B -> Prop) l r b :
  Forall2 R l r -> In b r -> exists a, In a l /\ R a b.
Proof.
  induction 1 as [|x y l r HR _ IH]; simpl; intros Hin; [contradiction|].
  destruct Hin as [<-|Hin].
  - exists x; auto.
  - destruct (IH Hin) as (a & Ha & HRa). exists a; auto.
Qed.

Lemma A4_Forall2_nth_error {A B} (R : A -> B -> Prop) l r :
  Forall2 R l r -> forall n,
  match nth_error l n, nth_error r n with
  | Some a, Some b => R a b
  | None, None => True
  | _, _ => False
  end.
Proof.
  induction 1 as [|x y l r HR _ IH]; intros [|n]; simpl; auto.
  apply IH.
Qed.

(* ---------- py_nth ---------- *)

Lemma A4_py_nth_map {A B} (f : A -> B) l i :
  py_nth (map f l) i = match py_nth l i with Ok a => Ok (f a) | Err e => Err e end.
Proof.
  unfold py_nth; cbv zeta. rewrite map_length.
  destruct (_ || _); auto.
  rewrite nth_error_map. destruct (nth_error l _); auto.
Qed.

Lemma A4_py_nth_In {A} (l : list A) i a : py_nth l i = Ok a -> In a l.
Proof.
  unfold py_nth; cbv zeta. destruct (_ || _); try discriminate.
  destruct (nth_error l _) eqn:H; try discriminate.
  intros [= <-]. eapply nth_error_In; eauto.
Qed.

Lemma A4_py_nth_of_nat {A} (l : list A) n a :
  nth_error l n = Some a -> py_nth l (Z.of_nat n) = Ok a.
Proof.
  intros H.
  assert (n < length l)%nat by (apply nth_error_Some; congruence).
  unfold py_nth; cbv zeta.
  destruct (Z.of_nat n <? 0) eqn:E; [lia|].
  destruct (_ || _) eqn:E2; [lia|].
  rewrite Nat2Z.id, H. reflexivity.
Qed.

Lemma A4_py_nth_Forall2 {A B} (R : A -> B -> Prop) l r i :
  Forall2 R l r ->
  match py_nth l i, py_nth r i with
  | Ok a, Ok b => R a b
  | Err e, Err e' => e = e'
  | _, _ => False
  end.
Proof.
  intros H. pose proof (A4_Forall2_length _ _ _ H) as HL.
  unfold py_nth; cbv zeta. rewrite <- HL.
  destruct (_ || _); auto.
  pose proof (A4_Forall2_nth_error _ _ _ H
                (Z.to_nat (if i <? 0 then i + Z.of_nat (length l) else i))) as P.
  destruct (nth_error l _), (nth_error r _); auto; contradiction.
Qed.

(* ---------- loop_get ---------- *)

Lemma A4_loop_get_map_ok {A B} (g : A -> res val) (f : B -> A) (h : B -> val) t :
  Forall (fun x => g (f x) = Ok (h x)) t -> loop_get g (map f t) = (map h t, End).
Proof.
  induction 1 as [|x t Hx _ IH]; simpl; auto.
  rewrite Hx, IH. reflexivity.
Qed.

(* ---------- assoc / inb / nodupb / functional ---------- *)

Lemma A4_assoc_Some_In k t v : assoc k t = Some v -> In (k, v) t.
Proof.
  unfold assoc. destruct (find (fun kv => String.eqb k (fst kv)) t) as [[k' v']|] eqn:H; simpl; try discriminate.
  intros [= <-]. apply find_some in H. destruct H as [H1 H2]. simpl in H2.
  apply String.eqb_eq in H2. subst; auto.
Qed.

Lemma A4_assoc_None_notin k t : assoc k t = None -> ~ In k (map fst t).
Proof.
  unfold assoc. destruct (find (fun kv => String.eqb k (fst kv)) t) eqn:H; simpl; try discriminate.
  intros _ Hin. apply in_map_iff in Hin. destruct Hin as [[k' v] [E Hin]].
  simpl in E; subst. eapply find_none in H; eauto. simpl in H.
  rewrite String.eqb_refl in H. discriminate.
Qed.

Lemma A4_notin_assoc_None k t : ~ In k (map fst t) -> assoc k t = None.
Proof.
  intros H. destruct (assoc k t) eqn:E; auto.
  apply A4_assoc_Some_In in E. exfalso; apply H. apply in_map_iff. exists (k, v); auto.
Qed.

Lemma A4_In_assoc_Some k v t : In (k, v) t -> exists v', assoc k t = Some v'.
Proof.
  intros H. destruct (assoc k t) eqn:E; eauto.
  apply A4_assoc_None_notin in E. exfalso. apply E, in_map_iff. exists (k, v); auto.
Qed.

Lemma A4_assoc_app k a b :
  assoc k (a ++ b) = match assoc k a with Some v => Some v | None => assoc k b end.
Proof.
  unfold assoc. induction a as [|x a IH]; simpl; auto.
  destruct (String.eqb k _); simpl; auto.
Qed.

Lemma A4_inb_In k ks : inb k ks = true <-> In k ks.
Proof.
  unfold inb. rewrite existsb_exists. split.
  - intros [x [H1 H2]]. apply String.eqb_eq in H2; subst; auto.
  - intros H; exists k; split; auto. apply String.eqb_refl.
Qed.

Lemma A4_nodupb_NoDup ks : nodupb ks = true -> NoDup ks.
Proof.
  induction ks as [|k ks IH]; simpl; intros H; [constructor|].
  apply andb_true_iff in H. destruct H as [H1 H2]. constructor; auto.
  intros Hin. apply A4_inb_In in Hin. rewrite Hin in H1. discriminate.
Qed.

Lemma A4_NoDup_functional t : NoDup (map fst t) -> functional t.
Proof.
  induction t as [|[k0 v0] t IH]; simpl; intros H k v v' H1 H2; [destruct H1|].
  inversion H as [|? ? Hnin Hnd]; subst.
  destruct H1 as [H1|H1], H2 as [H2|H2].
  - congruence.
  - inversion H1; subst. exfalso. apply Hnin. apply in_map_iff. exists (k, v'); auto.
  - inversion H2; subst. exfalso. apply Hnin. apply in_map_iff. exists (k, v); auto.
  - eapply IH; eauto.
Qed.

Lemma A4_list_eqb_nat a : forall b, list_eqb Nat.eqb a b = true -> a = b.
Proof.
  induction a as [|x a IH]; intros [|y b]; simpl; intros H; try discriminate; auto.
  apply andb_true_iff in H. destruct H as [H1 H2]. apply Nat.eqb_eq in H1.
  f_equal; auto.
Qed.

(* ================================================================== parts of a multi-input stage *)

Lemma A4_parts_agree l : Forall stage_ok l -> forallb wfb l = true ->
  forall ts, omapM tbl l = Some ts -> Forall2 agrees l ts.
Proof.
  induction 1 as [|d l Hd _ IH]; intros Hwf ts Hts.
  - simpl in Hts. inversion Hts. constructor.
  - simpl in Hwf. apply andb_true_iff in Hwf. destruct Hwf as [Hw1 Hw2].
    rewrite A4_omapM_cons in Hts.
    destruct (tbl d) as [t|] eqn:Ht; simpl in Hts; try discriminate.
    destruct (omapM tbl l) as [ts'|] eqn:Hts'; simpl in Hts; try discriminate.
    inversion Hts; subst. constructor; auto.
Qed.

Definition A4_kagrees (d : ds) (t : tab) : Prop := agrees d t /\ keys_ d = Ok (map fst t).

Lemma A4_kagrees_of_keys_ok l ts :
  Forall2 agrees l ts -> forallb keys_ok l = true -> Forall2 A4_kagrees l ts.
Proof.
  induction 1 as [|d t l ts Ha _ IH]; simpl; intros Hk; constructor;
    apply andb_true_iff in Hk; destruct Hk as [Hk1 Hk2]; auto.
  split; auto. unfold keys_ok in Hk1.
  destruct (keys_ d) as [ks|] eqn:E; try discriminate.
  destruct (ag_keys _ _ Ha _ E) as (_ & -> & _). reflexivity.
Qed.

Lemma A4_kagrees_of_mapM l ts :
  Forall2 agrees l ts -> forall kss, mapM keys_ l = Ok kss ->
  Forall2 A4_kagrees l ts /\ kss = map (map fst) ts.
Proof.
  induction 1 as [|d t l ts Ha _ IH]; intros kss Hk.
  - simpl in Hk. inversion Hk. split; constructor.
  - rewrite A4_mapM_cons in Hk.
    destruct (keys_ d) as [ks|] eqn:E; simpl in Hk; try discriminate.
    destruct (mapM keys_ l) as [kss'|] eqn:E'; simpl in Hk; try discriminate.
    inversion Hk; subst.
    destruct (IH _ eq_refl) as [IH1 IH2].
    destruct (ag_keys _ _ Ha _ E) as (_ & -> & _).
    split.
    + constructor; auto. split; auto.
    + simpl. congruence.
Qed.

Lemma A4_kagrees_flags l ts : Forall2 A4_kagrees l ts ->
  forallb keyedb l = true /\ forallb indexable l = true /\ forallb ikeyed l = true.
Proof.
  induction 1 as [|d t l ts [Ha Hk] _ (I1 & I2 & I3)]; simpl; auto.
  destruct (ag_keys _ _ Ha _ Hk) as (-> & _ & _ & -> & ->). simpl. auto.
Qed.

Lemma A4_getk_all l ts k : Forall2 A4_kagrees l ts ->
  match omapM (assoc k) ts with
  | Some vs => mapM (fun d => get_k d k) l = Ok vs
  | None => exists e, mapM (fun d => get_k d k) l = Err e
  end.
Proof.
  induction 1 as [|d t l ts [Ha Hk] _ IH].
  - reflexivity.
  - rewrite A4_omapM_cons, A4_mapM_cons.
    pose proof (ag_getk _ _ Ha _ Hk k) as G.
    destruct (assoc k t) as [v|]; simpl.
    + rewrite G. simpl.
      destruct (omapM (assoc k) ts) as [vs|]; simpl.
      * rewrite IH. reflexivity.
      * destruct IH as [e IH]. exists e. rewrite IH. reflexivity.
    + destruct G as [e G]. exists e. rewrite G. reflexivity.
Qed.

(* ================================================================== DKeyZip *)

Lemma A4_get_k_keyzip l k :
  get_k (DKeyZip l) k = (do vs <- mapM (fun d => get_k d k) l; Ok (VTup vs)).
Proof. reflexivity. Qed.

Lemma A4_get_i_keyzip l i :
  get_i (DKeyZip l) i =
  (do ks <- keys_ (DKeyZip l); do k <- py_nth ks i;
   do vs <- mapM (fun d => get_k d k) l; Ok (VTup vs)).
Proof. reflexivity. Qed.

Lemma A4_iter_keyzip wk l :
  iter_ wk (DKeyZip l) =
  with_res (keys_ (DKeyZip l)) (fun ks =>
    loop_get (fun k =>
                let r := do vs <- mapM (fun d => get_k d k) l; Ok (VTup vs) in
                if wk then keyed k r else r) ks).
Proof. reflexivity. Qed.

Lemma A4_keyzip_rows TS ks t :
  omapM (fun k => option_map (fun vs => (k, VTup vs)) (omapM (assoc k) TS)) ks = Some t ->
  map fst t = ks /\
  Forall (fun kv => exists vs, omapM (assoc (fst kv)) TS = Some vs /\ snd kv = VTup vs) t.
Proof.
  intros H. apply A4_omapM_Forall2 in H.
  induction H as [|k kv ks t Hk _ [IH1 IH2]]; simpl.
  - split; constructor.
  - destruct (omapM (assoc k) TS) as [vs|] eqn:E; simpl in Hk; try discriminate.
    inversion Hk; subst kv. simpl. split; [congruence|].
    constructor; auto. simpl. exists vs; auto.
Qed.

Lemma stage_keyzip l : Forall stage_ok l -> stage_ok (DKeyZip l).
Proof.
  intros HF Hwf t Ht. simpl in Hwf. simpl in Ht.
  destruct (forallb keys_ok l) eqn:Hko; try discriminate.
  destruct (omapM tbl l) as [ts|] eqn:Hts; simpl in Ht; try discriminate.
  pose proof (A4_parts_agree _ HF Hwf _ Hts) as HA.
  pose proof (A4_kagrees_of_keys_ok _ _ HA Hko) as HK.
  destruct ts as [|t0 ts']; try discriminate.
  destruct l as [|d0 l']; [inversion HK|].
  assert (HK0 : A4_kagrees d0 t0) by (inversion HK; auto).
  destruct HK0 as [Ha0 Hk0].
  apply A4_keyzip_rows in Ht. destruct Ht as [Hfst Hrows].
  assert (Hkeys : keys_ (DKeyZip (d0 :: l')) = Ok (map fst t)).
  { simpl. rewrite Hk0. congruence. }
  assert (HG : Forall (fun kv =>
             (do vs <- mapM (fun d => get_k d (fst kv)) (d0 :: l'); Ok (VTup vs)) = Ok (snd kv)) t).
  { eapply Forall_impl; [|exact Hrows]. intros kv (vs & Hvs & Hsnd).
    pose proof (A4_getk_all _ _ (fst kv) HK) as G. rewrite Hvs in G.
    rewrite G. simpl. congruence. }
  assert (Hlen : length t = length t0).
  { rewrite <- (map_length fst t), Hfst, map_length. reflexivity. }
  assert (Hfun : functional t).
  { intros k v v' H1 H2.
    rewrite Forall_forall in Hrows.
    destruct (Hrows _ H1) as (vs1 & E1 & S1). destruct (Hrows _ H2) as (vs2 & E2 & S2).
    simpl in *. congruence. }
  destruct (A4_kagrees_flags _ _ HK) as (F1 & F2 & F3).
  constructor.
  - rewrite A4_iter_keyzip, Hkeys. unfold with_res, vals.
    apply A4_loop_get_map_ok. exact HG.
  - intros _. rewrite A4_iter_keyzip, Hkeys. unfold with_res, pairs.
    apply (A4_loop_get_map_ok _ fst (fun kv => pair_of (fst kv) (snd kv))).
    eapply Forall_impl; [|exact HG]. intros kv H. cbv zeta. unfold keyed.
    rewrite H. reflexivity.
  - intros m Hm. simpl in Hm. rewrite (ag_len _ _ Ha0 _ Hm). auto.
  - intros Hix Hik. simpl in Hix, Hik.
    apply andb_true_iff in Hix. apply andb_true_iff in Hik.
    destruct Hix as [Hix _], Hik as [Hik _].
    destruct (ag_idx _ _ Ha0 Hix Hik) as [L0 _].
    split.
    + simpl. rewrite L0. congruence.
    + intros i. rewrite A4_get_i_keyzip, Hkeys. simpl bind.
      unfold vals. rewrite !A4_py_nth_map.
      destruct (py_nth t i) as [kv|e] eqn:E; simpl; auto.
      apply A4_py_nth_In in E. rewrite Forall_forall in HG. apply HG; auto.
  - intros ks Hks. rewrite Hkeys in Hks. inversion Hks; subst ks.
    simpl. repeat split; auto.
  - intros ks _ k. rewrite A4_get_k_keyzip.
    destruct (assoc k t) as [v|] eqn:E.
    + apply A4_assoc_Some_In in E. rewrite Forall_forall in HG.
      apply (HG _ E).
    + apply A4_assoc_None_notin in E. rewrite Hfst in E.
      apply A4_notin_assoc_None in E.
      pose proof (A4_getk_all _ _ k HK) as G. rewrite A4_omapM_cons, E in G. cbn [obind] in G.
      destruct G as [e G]. exists e. rewrite G. reflexivity.
Qed.

(* ================================================================== DIntersperse *)

Definition A4_pick (e : nat) := fix pick (l : list ds) (di : nat) : res val :=
  match l, di with
  | [], _ => Err (lib EIndex)
  | d :: _, O => get_i d (Z.of_nat e)
  | _ :: t, S di' => pick t di'
  end.

Lemma A4_get_i_intersperse o l i :
  get_i (DIntersperse o l) i = (do de <- py_nth o i; A4_pick (snd de) l (fst de)).
Proof. reflexivity. Qed.

Definition A4_kwalk (k : key) := fix walk (l : list ds) : res val :=
  match l with
  | [] => Err (lib EKey)
  | d :: t => do ks <- keys_ d; if inb k ks then get_k d k else walk t
  end.

Lemma A4_kwalk_cons k d t :
  A4_kwalk k (d :: t) = (do ks <- keys_ d; if inb k ks then get_k d k else A4_kwalk k t).
Proof. reflexivity. Qed.

Lemma A4_get_k_intersperse o l k :
  get_k (DIntersperse o l) k = (do _u <- keys_ (DIntersperse o l); A4_kwalk k l).
Proof. reflexivity. Qed.

Lemma A4_nth_zeros {A} (ts : list A) : forall di, nth di (map (fun _ => 0%nat) ts) 0%nat = 0%nat.
Proof. induction ts; destruct di; simpl; auto. Qed.

Lemma A4_nth_lengths {A} (ts : list (list A)) di :
  nth di (map (@length A) ts) 0%nat = length (nth di ts []).
Proof. exact (map_nth (@length A) ts [] di). Qed.

Lemma A4_valid_merge_cons di ei rest cur lens :
  valid_merge ((di, ei) :: rest) cur lens = true ->
  (di < length lens)%nat /\ ei = nth di cur 0%nat /\ (ei < nth di lens 0)%nat /\
  valid_merge rest (bump cur di) lens = true.
Proof.
  simpl. rewrite !andb_true_iff. rewrite !Nat.ltb_lt, Nat.eqb_eq. tauto.
Qed.

Lemma A4_nth_bump_neq cur : forall di dj, di <> dj ->
  nth di (bump cur dj) 0%nat = nth di cur 0%nat.
Proof.
  induction cur as [|c cur IH]; intros di dj H; destruct dj; simpl; auto.
  - destruct di; auto; congruence.
  - destruct di; auto.
Qed.

Lemma A4_nth_bump_le cur : forall di, (nth di (bump cur di) 0 <= S (nth di cur 0))%nat.
Proof. induction cur as [|c cur IH]; intros [|di]; simpl; auto; lia. Qed.

Lemma A4_valid_merge_complete lens : forall o cur, valid_merge o cur lens = true ->
  forall di e, (nth di cur 0 <= e < nth di lens 0)%nat -> In (di, e) o.
Proof.
  induction o as [|[dj ej] o IH]; intros cur Hv di e Hr.
  - simpl in Hv. apply A4_list_eqb_nat in Hv. subst. lia.
  - apply A4_valid_merge_cons in Hv. destruct Hv as (Hd & He & Hlt & Hv).
    destruct (Nat.eq_dec di dj) as [->|Hne].
    + destruct (Nat.eq_dec e ej) as [->|Hne']; [left; auto|].
      right. apply (IH _ Hv). pose proof (A4_nth_bump_le cur dj). lia.
    + right. apply (IH _ Hv). rewrite A4_nth_bump_neq; auto.
Qed.

Lemma A4_nth_error_part {A} (ts : list (list A)) di ei (x : A) :
  nth_error (nth di ts []) ei = Some x -> (di < length ts)%nat.
Proof.
  intros H. destruct (Nat.lt_ge_cases di (length ts)) as [|Hge]; auto.
  rewrite (nth_overflow ts [] Hge) in H. destruct ei; discriminate.
Qed.

Lemma A4_nth_error_map_nth {A B} (f : list A -> B) (ts : list (list A)) di :
  (di < length ts)%nat -> nth_error (map f ts) di = Some (f (nth di ts [])).
Proof. intros H. rewrite nth_error_map, (nth_error_nth' ts [] H). reflexivity. Qed.

Lemma A4_walk_ok (g : key * val -> val) (ts : list (list (key * val))) : forall o cur t,
  valid_merge o cur (map (@length _) ts) = true ->
  omapM (fun de => nth_error (nth (fst de) ts []) (snd de)) o = Some t ->
  intersperse_walk (map (fun t => (map g t, End)) ts) o cur = (map g t, End).
Proof.
  induction o as [|[di ei] o IH]; intros cur t Hv Ho.
  - simpl in Ho. inversion Ho. reflexivity.
  - apply A4_valid_merge_cons in Hv. destruct Hv as (Hd & He & Hlt & Hv).
    rewrite A4_omapM_cons in Ho. simpl fst in Ho; simpl snd in Ho.
    destruct (nth_error (nth di ts []) ei) as [kv|] eqn:Hn; simpl in Ho; try discriminate.
    destruct (omapM _ o) as [t'|] eqn:Ho'; simpl in Ho; try discriminate.
    inversion Ho; subst t. clear Ho.
    rewrite map_length in Hd.
    simpl intersperse_walk.
    rewrite (A4_nth_error_map_nth (A:=key * val) _ ts di Hd). simpl.
    rewrite <- He, nth_error_map, Hn. simpl.
    rewrite (IH _ _ Hv eq_refl). reflexivity.
Qed.

Lemma A4_rows_incl (ts : list (list (key * val))) o t :
  omapM (fun de => nth_error (nth (fst de) ts []) (snd de)) o = Some t ->
  forall x, In x t -> In x (concat ts).
Proof.
  intros Ho x Hx. apply A4_omapM_Forall2 in Ho.
  destruct (A4_Forall2_In_r _ _ _ _ Ho Hx) as ([di ei] & _ & Hn). simpl in Hn.
  apply in_concat. exists (nth di ts []). split.
  - apply nth_In. eapply A4_nth_error_part; eauto.
  - eapply nth_error_In; eauto.
Qed.

Lemma A4_rows_complete (ts : list (list (key * val))) o t :
  valid_merge o (map (fun _ => 0%nat) ts) (map (@length _) ts) = true ->
  omapM (fun de => nth_error (nth (fst de) ts []) (snd de)) o = Some t ->
  forall x, In x (concat ts) -> In x t.
Proof.
  intros Hv Ho x Hx. apply A4_omapM_Forall2 in Ho.
  apply in_concat in Hx. destruct Hx as (td & Htd & Hx).
  destruct (In_nth _ _ [] Htd) as (di & Hdi & <-).
  destruct (In_nth_error _ _ Hx) as (e & He).
  assert (Hin : In (di, e) o).
  { apply (A4_valid_merge_complete _ _ _ Hv).
    rewrite A4_nth_zeros, A4_nth_lengths.
    split; [lia|]. apply nth_error_Some. congruence. }
  destruct (A4_Forall2_In_l _ _ _ _ Ho Hin) as (b & Hb & Hn). simpl in Hn.
  congruence.
Qed.

Lemma A4_pick_ok l ts : Forall2 agrees l ts ->
  forallb indexable l = true -> forallb ikeyed l = true ->
  forall di ei kv, nth_error (nth di ts []) ei = Some kv -> A4_pick ei l di = Ok (snd kv).
Proof.
  induction 1 as [|d t l ts Ha _ IH]; simpl forallb; intros Hix Hik di ei kv Hn.
  - destruct di; simpl in Hn; destruct ei; discriminate.
  - apply andb_true_iff in Hix. apply andb_true_iff in Hik.
    destruct Hix as [Hix1 Hix2], Hik as [Hik1 Hik2]. destruct di; simpl in Hn.
    + change (A4_pick ei (d :: l) 0) with (get_i d (Z.of_nat ei)).
      destruct (ag_idx _ _ Ha Hix1 Hik1) as [_ G]. rewrite G.
      apply A4_py_nth_of_nat. unfold vals. rewrite nth_error_map, Hn. reflexivity.
    + change (A4_pick ei (d :: l) (S di)) with (A4_pick ei l di). eauto.
Qed.

Lemma A4_kwalk_spec k l ts : Forall2 A4_kagrees l ts ->
  A4_kwalk k l = match assoc k (concat ts) with Some v => Ok v | None => Err (lib EKey) end.
Proof.
  induction 1 as [|d t l ts [Ha Hk] _ IH].
  - reflexivity.
  - rewrite A4_kwalk_cons, Hk. simpl concat. rewrite A4_assoc_app. simpl bind.
    pose proof (ag_getk _ _ Ha _ Hk k) as G.
    destruct (assoc k t) as [v|] eqn:E.
    + apply A4_assoc_Some_In in E.
      assert (Hi : inb k (map fst t) = true)
        by (apply A4_inb_In, in_map_iff; exists (k, v); auto).
      rewrite Hi. exact G.
    + apply A4_assoc_None_notin in E.
      destruct (inb k (map fst t)) eqn:Hi; [apply A4_inb_In in Hi; contradiction|].
      exact IH.
Qed.

Lemma A4_intersperse_keys (ts : list (list (key * val))) o t :
  omapM (fun de => nth_error (nth (fst de) ts []) (snd de)) o = Some t ->
  mapM (fun '(di, ei) => match nth_error (map (map fst) ts) di with
                         | Some ks => nth_key ks ei
                         | None => Err (lib EIndex) end) o = Ok (map fst t).
Proof.
  revert t; induction o as [|[di ei] o IH]; intros t Ho.
  - simpl in Ho. inversion Ho. reflexivity.
  - rewrite A4_omapM_cons in Ho. simpl fst in Ho; simpl snd in Ho.
    destruct (nth_error (nth di ts []) ei) as [kv|] eqn:Hn; simpl in Ho; try discriminate.
    destruct (omapM _ o) as [t'|] eqn:Ho'; simpl in Ho; try discriminate.
    inversion Ho; subst t. clear Ho.
    rewrite A4_mapM_cons, (IH _ eq_refl).
    pose proof (A4_nth_error_part _ _ _ _ Hn) as Hd.
    rewrite (A4_nth_error_map_nth (A:=key * val) _ ts di Hd).
    unfold nth_key. rewrite nth_error_map, Hn. reflexivity.
Qed.

Lemma A4_intersperse_keys_inv o l ts t ks :
  Forall2 agrees l ts ->
  omapM (fun de => nth_error (nth (fst de) ts []) (snd de)) o = Some t ->
  keys_ (DIntersperse o l) = Ok ks ->
  Forall2 A4_kagrees l ts /\ ks = map fst t /\ functional t.
Proof.
  intros HA Ht Hks. simpl in Hks.
  destruct (mapM keys_ l) as [kss|] eqn:Hkss; simpl in Hks; try discriminate.
  destruct (A4_kagrees_of_mapM _ _ HA _ Hkss) as [HK ->].
  rewrite (A4_intersperse_keys _ _ _ Ht) in Hks. simpl in Hks.
  unfold unique_keys in Hks.
  destruct (nodupb (map fst t)) eqn:Hnd; try discriminate.
  inversion Hks; subst ks.
  repeat split; auto. apply A4_NoDup_functional, A4_nodupb_NoDup; auto.
Qed.

Lemma stage_intersperse o l : Forall stage_ok l -> stage_ok (DIntersperse o l).
Proof.
  intros HF Hwf t Ht. simpl in Hwf. simpl in Ht.
  destruct (omapM tbl l) as [ts|] eqn:Hts; simpl in Ht; try discriminate.
  destruct (valid_merge o _ _) eqn:Hv; try discriminate.
  pose proof (A4_parts_agree _ HF Hwf _ Hts) as HA.
  assert (Hlen : length o = length t).
  { apply A4_omapM_Forall2, A4_Forall2_length in Ht. auto. }
  assert (Hz : map (fun _ => 0%nat) l = map (fun _ => 0%nat) ts).
  { clear -HA; induction HA; simpl; congruence. }
  constructor.
  - change (iter_ false (DIntersperse o l))
      with (intersperse_walk (map (iter_ false) l) o (map (fun _ => 0%nat) l)).
    assert (Hm : map (iter_ false) l = map (fun t => (map snd t, End)) ts).
    { clear -HA. induction HA as [|d t l ts Ha _ IH]; simpl; auto.
      rewrite IH, (ag_iter _ _ Ha). reflexivity. }
    rewrite Hm, Hz. apply A4_walk_ok; auto.
  - intros Hkd. simpl in Hkd.
    change (iter_ true (DIntersperse o l))
      with (intersperse_walk (map (iter_ true) l) o (map (fun _ => 0%nat) l)).
    assert (Hm : map (iter_ true) l =
                 map (fun t => (map (fun kv => pair_of (fst kv) (snd kv)) t, End)) ts).
    { clear -HA Hkd. induction HA as [|d t l ts Ha _ IH]; simpl; auto.
      simpl in Hkd. apply andb_true_iff in Hkd. destruct Hkd as [K1 K2].
      rewrite (IH K2), (ag_iterk _ _ Ha K1). reflexivity. }
    rewrite Hm, Hz. apply A4_walk_ok; auto.
  - simpl. intros m [= <-]. auto.
  - simpl indexable. simpl ikeyed. intros Hix Hik. split.
    + simpl. congruence.
    + intros i. rewrite A4_get_i_intersperse. unfold vals. rewrite A4_py_nth_map.
      pose proof (A4_py_nth_Forall2 _ _ _ i (A4_omapM_Forall2 _ _ _ Ht)) as P.
      destruct (py_nth o i) as [[di ei]|e], (py_nth t i) as [kv|e']; simpl in *;
        try contradiction.
      * eapply A4_pick_ok; eauto.
      * congruence.
  - intros ks Hks.
    destruct (A4_intersperse_keys_inv _ _ _ _ _ HA Ht Hks) as (HK & -> & Hfun).
    destruct (A4_kagrees_flags _ _ HK) as (F1 & F2 & F3).
    simpl. repeat split; auto.
  - intros ks Hks k.
    destruct (A4_intersperse_keys_inv _ _ _ _ _ HA Ht Hks) as (HK & -> & Hfun).
    rewrite A4_get_k_intersperse, Hks. simpl bind.
    rewrite (A4_kwalk_spec k _ _ HK).
    destruct (assoc k t) as [v|] eqn:E.
    + apply A4_assoc_Some_In in E.
      pose proof (A4_rows_incl _ _ _ Ht _ E) as Hc.
      destruct (A4_In_assoc_Some _ _ _ Hc) as [v' E']. rewrite E'.
      apply A4_assoc_Some_In in E'.
      apply (A4_rows_complete _ _ _ Hv Ht) in E'.
      rewrite (Hfun _ _ _ E E'). reflexivity.
    + destruct (assoc k (concat ts)) as [v'|] eqn:E'; [|eauto].
      apply A4_assoc_Some_In in E'.
      apply (A4_rows_complete _ _ _ Hv Ht) in E'.
      apply A4_assoc_None_notin in E. exfalso. apply E.
      apply in_map_iff. exists (k, v'); auto.
Qed.
