(* Base.v - values, exception classes, results.  Shared by all models.
   Standard library only; no axioms. *)
From Coq Require Import String Ascii.
From Coq Require Import List Arith ZArith Bool Lia.
Import ListNotations.
Open Scope Z_scope.

(* ---------- exception classes (the part of Python's class tree the properties distinguish) ---------- *)
Inductive ecls :=
| EBase | EException | EFilter | EValue | ELookup | EIndex | EKey | EType | EAssert
| ENotImpl | ERuntime | EItemsND | EItemsNDBase | EStopIter | EZeroDiv | EAttr
| EUser (n : nat)       (* user classes: U0(Exception), U1(U0), U2(Exception), ... *)
| EUserBase (n : nat).  (* user classes deriving from BaseException directly *)

Definition eparent (c : ecls) : option ecls :=
  match c with
  | EBase => None
  | EException => Some EBase
  | EFilter | EValue | ELookup | EType | EAssert | ERuntime | EItemsND | EStopIter | EAttr => Some EException
  | EZeroDiv => Some EException
  | EIndex | EKey => Some ELookup
  | ENotImpl => Some ERuntime
  | EItemsNDBase => Some EBase
  | EUser 1 => Some (EUser 0)
  | EUser _ => Some EException
  | EUserBase _ => Some EBase
  end.

Definition ecls_eqb (a b : ecls) : bool :=
  match a, b with
  | EBase, EBase | EException, EException | EFilter, EFilter | EValue, EValue
  | ELookup, ELookup | EIndex, EIndex | EKey, EKey | EType, EType | EAssert, EAssert
  | ENotImpl, ENotImpl | ERuntime, ERuntime | EItemsND, EItemsND
  | EItemsNDBase, EItemsNDBase | EStopIter, EStopIter | EZeroDiv, EZeroDiv | EAttr, EAttr => true
  | EUser n, EUser m => Nat.eqb n m
  | EUserBase n, EUserBase m => Nat.eqb n m
  | _, _ => false
  end.

Lemma ecls_eqb_eq a b : ecls_eqb a b = true <-> a = b.
Proof.
  split.
  - destruct a, b; simpl; try discriminate; auto; intros H; apply Nat.eqb_eq in H; congruence.
  - intros ->. destruct b; simpl; auto; apply Nat.eqb_refl.
Qed.

(* isinstance(e, c): walk up the class tree (depth of the tree is <= 4) *)
Fixpoint isa_fuel (fuel : nat) (c target : ecls) : bool :=
  if ecls_eqb c target then true else
  match fuel with
  | O => false
  | S f => match eparent c with Some p => isa_fuel f p target | None => false end
  end.
Definition isa (c target : ecls) : bool := isa_fuel 5 c target.

(* an exception *instance*: class + identity tag (the int a user function raised it with;
   0 for exceptions raised by the library itself) *)
Record exn := mkexn { ecl : ecls; etag : Z }.
Definition exn_eqb (a b : exn) : bool := ecls_eqb (ecl a) (ecl b) && (etag a =? etag b).
Definition lib (c : ecls) : exn := mkexn c 0.

(* except E:  E is a tuple of classes *)
Definition selected (E : list ecls) (e : exn) : bool := existsb (isa (ecl e)) E.

Inductive res (A : Type) := Ok (a : A) | Err (e : exn).
Arguments Ok {A}. Arguments Err {A}.
Definition bind {A B} (r : res A) (f : A -> res B) : res B :=
  match r with Ok a => f a | Err e => Err e end.
Notation "'do' x <- r ; k" := (bind r (fun x => k)) (at level 200, x name, r at level 100, k at level 200).

Definition res_eqb {A} (eqb : A -> A -> bool) (a b : res A) : bool :=
  match a, b with Ok x, Ok y => eqb x y | Err e, Err f => exn_eqb e f | _, _ => false end.

Definition mapM {A B} (f : A -> res B) : list A -> res (list B) :=
  fix go (l : list A) : res (list B) :=
  match l with
  | [] => Ok []
  | a :: t => do b <- f a; do r <- go t; Ok (b :: r)
  end.

(* ---------- values ---------- *)
Definition key := string.
Inductive val :=
| VInt (z : Z) | VStr (s : string) | VNone
| VList (l : list val) | VTup (l : list val)
| VDict (ks : list string) (vs : list val).

Fixpoint val_eqb (a b : val) {struct a} : bool :=
  let fix leqb (l m : list val) {struct l} : bool :=
    match l, m with
    | [], [] => true
    | x :: l', y :: m' => val_eqb x y && leqb l' m'
    | _, _ => false
    end in
  match a, b with
  | VInt x, VInt y => x =? y
  | VStr s, VStr t => String.eqb s t
  | VNone, VNone => true
  | VList l, VList m => leqb l m
  | VTup l, VTup m => leqb l m
  | VDict k l, VDict k' m => (if list_eq_dec string_dec k k' then true else false) && leqb l m
  | _, _ => false
  end.

Fixpoint list_eqb {A} (eqb : A -> A -> bool) (l m : list A) : bool :=
  match l, m with
  | [], [] => true
  | x :: l', y :: m' => eqb x y && list_eqb eqb l' m'
  | _, _ => false
  end.

Definition pair_of (k : key) (v : val) : val := VTup [VStr k; v].

(* Python list indexing: l[i] for any integer i *)
Definition py_nth {A} (l : list A) (i : Z) : res A :=
  let n := Z.of_nat (length l) in
  let j := if i <? 0 then i + n else i in
  if (j <? 0) || (n <=? j) then Err (lib EIndex)
  else match nth_error l (Z.to_nat j) with Some a => Ok a | None => Err (lib EIndex) end.

Fixpoint index_of (k : key) (ks : list key) : option nat :=
  match ks with
  | [] => None
  | k' :: t => if String.eqb k k' then Some O else option_map S (index_of k t)
  end.

Definition inb (k : key) (ks : list key) : bool := existsb (String.eqb k) ks.

Fixpoint nodupb (ks : list key) : bool :=
  match ks with [] => true | k :: t => negb (inb k t) && nodupb t end.

(* outcome of one iteration: the values yielded, then how it ended *)
Inductive ending := End | Raised (e : exn).
Definition trace := (list val * ending)%type.
Definition ending_eqb (a b : ending) : bool :=
  match a, b with End, End => true | Raised e, Raised f => exn_eqb e f | _, _ => false end.
Definition trace_eqb (a b : trace) : bool :=
  list_eqb val_eqb (fst a) (fst b) && ending_eqb (snd a) (snd b).
