(* CacheTie.v - correspondence helpers for Model C: run a recorded history on the model and compare with
   what the implementation returned (values are (index, call number) pairs produced by a counting upstream). *)
From Coq Require Import List Arith ZArith Bool.
Import ListNotations.
Require Import LD.Cache.

Definition V2 := (nat * nat)%type.
Definition up2 (i c : nat) : V2 := (i, c).
Definition v2_eqb (a b : V2) : bool := (fst a =? fst b) && (snd a =? snd b).
Fixpoint leqb {A} (e : A -> A -> bool) (l m : list A) : bool :=
  match l, m with [], [] => true | x :: l', y :: m' => e x y && leqb e l' m' | _, _ => false end.

Definition mout_eqb (a b : mout V2) : bool :=
  match a, b with
  | MVal _ x, MVal _ y => v2_eqb x y
  | MIndexError _, MIndexError _ | MNoHandle _, MNoHandle _ => true
  | MNewHandle _ x, MNewHandle _ y => x =? y
  | MVals _ x, MVals _ y => leqb v2_eqb x y
  | _, _ => false
  end.

(* a case: n, limited, oracle, history, expected outputs, expected final call counts, expected number of cache entries *)
Record mcase := mkMC { mc_n : nat; mc_lim : bool; mc_mem : list bool; mc_ops : list mop;
                       mc_out : list (mout V2); mc_calls : list nat; mc_size : nat }.
Definition mcase_model (c : mcase) :=
  let '(s, outs) := mrun V2 (mc_n c) up2 (mc_lim c) (minit V2 (mc_n c) (mc_mem c)) (mc_ops c) in
  (outs, calls V2 s, length (cache V2 s)).
Definition mcase_ok (c : mcase) : bool :=
  let '(outs, cl, sz) := mcase_model c in
  leqb mout_eqb outs (mc_out c) && leqb Nat.eqb cl (mc_calls c) && (sz =? mc_size c).
Fixpoint mbad (j : nat) (cs : list mcase) : list nat :=
  match cs with [] => [] | c :: r => if mcase_ok c then mbad (S j) r else j :: mbad (S j) r end.

(* disk: deterministic upstream, value = index * 10 + 1 *)
Definition upd (i : nat) : nat := i * 10 + 1.
Definition dout_eqb (a b : dout nat) : bool :=
  match a, b with
  | DVal _ x, DVal _ y => x =? y
  | DIndexError _, DIndexError _ | DNoHandle _, DNoHandle _ | DRefused _, DRefused _ | DDone _, DDone _ => true
  | DNew _ x, DNew _ y => x =? y
  | _, _ => false
  end.
Record dcase := mkDC { dc_n : nat; dc_ops : list dop; dc_out : list (dout nat); dc_calls : list nat; dc_exists : bool;
                       dc_stored : list nat }.
Definition dcase_model (c : dcase) :=
  let '(s, outs) := drun nat (dc_n c) upd (dinit nat (dc_n c)) (dc_ops c) in
  (outs, dcalls nat s, match dir nat s with Some _ => true | None => false end,
   match dir nat s with Some l => map fst l | None => [] end).
Definition same_set (a b : list nat) : bool :=
  forallb (fun x => existsb (Nat.eqb x) b) a && forallb (fun x => existsb (Nat.eqb x) a) b.
Definition dcase_ok (c : dcase) : bool :=
  let '(outs, cl, ex, st) := dcase_model c in
  leqb dout_eqb outs (dc_out c) && leqb Nat.eqb cl (dc_calls c) && Bool.eqb ex (dc_exists c) && same_set st (dc_stored c).
Fixpoint dbad (j : nat) (cs : list dcase) : list nat :=
  match cs with [] => [] | c :: r => if dcase_ok c then dbad (S j) r else j :: dbad (S j) r end.
