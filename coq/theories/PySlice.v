(* PySlice.v - Python/numpy index arithmetic used by SliceDataset, split/shard:
   slice.indices, integer fancy indexing, np.array_split.  Definitions only (proofs in
   PySliceProofs.v) so the model still runs when a proof is broken. *)
From Coq Require Import String.
From Coq Require Import List Arith ZArith Bool Lia.
Require Import LD.Base.
Import ListNotations.
Open Scope Z_scope.

(* ---- slice(start, stop, step).indices(n), as CPython's PySlice_AdjustIndices ---- *)
Definition clamp_start (n step : Z) (s : option Z) : Z :=
  match s with
  | None => if step <? 0 then n - 1 else 0
  | Some s => if s <? 0 then (let s' := s + n in if s' <? 0 then (if step <? 0 then -1 else 0) else s')
              else if n <=? s then (if step <? 0 then n - 1 else n) else s
  end.
Definition clamp_stop (n step : Z) (s : option Z) : Z :=
  match s with
  | None => if step <? 0 then -1 else n
  | Some s => if s <? 0 then (let s' := s + n in if s' <? 0 then (if step <? 0 then -1 else 0) else s')
              else if n <=? s then (if step <? 0 then n - 1 else n) else s
  end.
Definition slice_len (start stop step : Z) : Z :=
  if step <? 0 then (if stop <? start then (start - stop - 1) / (- step) + 1 else 0)
  else (if start <? stop then (stop - start - 1) / step + 1 else 0).

(* np.arange(n)[start:stop:step] ; step = 0 is refused with ValueError *)
Definition slice_indices (n : nat) (start stop step : option Z) : res (list nat) :=
  let st := match step with None => 1 | Some s => s end in
  if st =? 0 then Err (lib EValue) else
  let a := clamp_start (Z.of_nat n) st start in
  let b := clamp_stop (Z.of_nat n) st stop in
  let len := Z.to_nat (slice_len a b st) in
  Ok (map (fun i => Z.to_nat (a + Z.of_nat i * st)) (seq 0 len)).

(* np.arange(n)[[i0, i1, ...]] : negative wrap, out of range -> IndexError *)
Definition fancy_indices (n : nat) (l : list Z) : res (list nat) :=
  mapM (fun i => let j := if i <? 0 then i + Z.of_nat n else i in
                 if (j <? 0) || (Z.of_nat n <=? j) then Err (lib EIndex) else Ok (Z.to_nat j)) l.

(* operator.itemgetter( * keys)({k: i for i, k in enumerate(ks)}) ; the dict keeps the LAST position of a duplicate *)
Fixpoint last_index_of (k : key) (ks : list key) (base : nat) : option nat :=
  match ks with
  | [] => None
  | k' :: t => match last_index_of k t (S base) with
               | Some j => Some j
               | None => if String.eqb k k' then Some base else None
               end
  end.
Definition key_indices (ks : list key) (sel : list key) : res (list nat) :=
  mapM (fun k => match last_index_of k ks 0 with Some j => Ok j | None => Err (lib EKey) end) sel.

(* ---- np.array_split(np.arange(n), k) : the first n mod k sections get one more ---- *)
Fixpoint take_chunks {A} (sizes : list nat) (l : list A) : list (list A) :=
  match sizes with
  | [] => []
  | s :: t => firstn s l :: take_chunks t (skipn s l)
  end.
Definition split_sizes (n k : nat) : list nat :=
  repeat (S (n / k))%nat (n mod k)%nat ++ repeat (n / k)%nat (k - n mod k)%nat.
Definition array_split (n k : nat) : list (list nat) := take_chunks (split_sizes n k) (seq 0 n).

(* Dataset.split(sections): ValueError unless 1 <= sections <= n *)
Definition split_indices (n : nat) (k : Z) : res (list (list nat)) :=
  if k <? 1 then Err (lib EValue)
  else if Z.of_nat n <? k then Err (lib EValue)
  else Ok (array_split n (Z.to_nat k)).
