(* ShuffleFreeze.v - Model F, part 1b: frozen copies of a per-epoch reshuffle in flight.
   `ReShuffleDataset.copy(freeze=True)` = `input[self.permutation]`: the source object draws a permutation (shuffling
   its ONE index array in place, exactly like the start of an epoch) and the frozen copy is a selection that owns a
   SNAPSHOT of that array (SliceDataset.__init__ builds a fresh array).  `catch()`, lazy `apply` and multi-worker
   prefetch take such a frozen copy at the start of every iteration.
   The state extends Part 1 (rstate): later epochs / freezes of the source keep shuffling the shared array; the
   theorems (ShuffleFreezeProofs.v) say that this never shows in a frozen copy.  `fstep_alias` is the variant in which
   the copy keeps the array itself instead of a snapshot (the seeded changes C12b / C13c): refuted by a witness.
   Definitions only. *)
From Coq Require Import List Arith Bool Lia Permutation.
Require Import LD.Shuffle.
Import ListNotations.

Record fstate := mkF {
  src : rstate;                  (* the reshuffle object itself with its iterators in flight *)
  frozen : list (list nat);      (* index array of every frozen copy taken so far *)
  fpos : list (nat * nat);       (* iterators over frozen copies: (copy, next position) *)
  fouts : list (list nat) }.     (* per such iterator: input positions yielded so far *)
Definition finit (n : nat) : fstate := mkF (rinit n) [] [] [].

Inductive fop :=
| FSrc (o : rop)                 (* an operation on the source object: start of an epoch / next() of one of its iterators *)
| FFreeze (sigma : list nat)     (* copy(freeze=True): in-place shuffle with oracle sigma, the copy snapshots the result *)
| FStart (c : nat)               (* iter(frozen copy c) *)
| FNext (it : nat).              (* next() of iterator `it` over a frozen copy *)

Definition fstep (s : fstate) (o : fop) : fstate :=
  match o with
  | FSrc ro => mkF (rstep (src s) ro) (frozen s) (fpos s) (fouts s)
  | FFreeze sigma =>
      let a := apply_perm sigma (arr (src s)) in
      mkF (mkR a (pos (src s)) (outs (src s))) (frozen s ++ [a]) (fpos s) (fouts s)
  | FStart c => mkF (src s) (frozen s) (fpos s ++ [(c, 0)]) (fouts s ++ [[]])
  | FNext it =>
      match nth_error (fpos s) it with
      | None => s
      | Some (c, p) =>
          match nth_error (nth c (frozen s) []) p with
          | None => s                                                        (* exhausted: StopIteration *)
          | Some idx => mkF (src s) (frozen s) (upd (fpos s) it (c, S p)) (upd (fouts s) it (nth it (fouts s) [] ++ [idx]))
          end
      end
  end.
Definition frun (s : fstate) (ops : list fop) : fstate := fold_left fstep ops s.

(* every oracle permutation used by an operation is a permutation of the positions *)
Definition fop_ok (n : nat) (o : fop) : Prop :=
  match o with
  | FSrc (RStart sigma) | FFreeze sigma => Permutation sigma (seq 0 n)
  | _ => True
  end.

(* ---- the aliasing variant: the frozen copy keeps a REFERENCE to the source's array (modelled by looking the array
   up in the source at every access instead of in `frozen`) ---- *)
Definition fstep_alias (s : fstate) (o : fop) : fstate :=
  match o with
  | FNext it =>
      match nth_error (fpos s) it with
      | None => s
      | Some (c, p) =>
          match nth_error (arr (src s)) p with
          | None => s
          | Some idx => mkF (src s) (frozen s) (upd (fpos s) it (c, S p)) (upd (fouts s) it (nth it (fouts s) [] ++ [idx]))
          end
      end
  | _ => fstep s o
  end.
Definition frun_alias (s : fstate) (ops : list fop) : fstate := fold_left fstep_alias ops s.

(* ---- correspondence: a history and what the implementation's frozen-copy iterators yielded ---- *)
Definition list_eqb_nat (a b : list nat) : bool :=
  (length a =? length b) && forallb (fun p => fst p =? snd p) (combine a b).
Definition fcase := (nat * list fop * list (list nat))%type.
Definition fcase_ok (c : fcase) : bool :=
  let '(n, ops, outs) := c in
  let s := frun (finit n) ops in
  (length (fouts s) =? length outs) && forallb (fun p => list_eqb_nat (fst p) (snd p)) (combine (fouts s) outs).
Fixpoint fbad (j : nat) (cs : list fcase) : list nat :=
  match cs with [] => [] | c :: r => if fcase_ok c then fbad (S j) r else j :: fbad (S j) r end.
