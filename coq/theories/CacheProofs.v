(* CacheProofs.v - proofs about Model C (Cache.v): CacheDataset (memory) and DiskCacheDataset. *)
From Coq Require Import List Arith ZArith Bool Lia ZifyBool ZifyNat.
Import ListNotations.
Require Import LD.Cache.

(* ---------------------------------------------------------------- list helpers *)
Section SetNth.
  Context {A : Type}.

  Lemma set_nth_length : forall (l : list A) i a, length (set_nth l i a) = length l.
  Proof. induction l; destruct i; simpl; intros; auto. Qed.

  Lemma nth_set_nth_same : forall (l : list A) i a d, i < length l -> nth i (set_nth l i a) d = a.
  Proof. induction l; destruct i; simpl; intros; try lia; auto. apply IHl. lia. Qed.

  Lemma nth_set_nth_other : forall (l : list A) i k a d, k <> i -> nth k (set_nth l i a) d = nth k l d.
  Proof.
    induction l; destruct i; destruct k; simpl; intros; try congruence; auto.
  Qed.

  Lemma nth_set_nth_beyond : forall (l : list A) i a, length l <= i -> set_nth l i a = l.
  Proof. induction l; destruct i; simpl; intros; try lia; auto. f_equal. apply IHl. lia. Qed.

  Lemma Forall_set_nth : forall (P : A -> Prop) l i a, Forall P l -> P a -> Forall P (set_nth l i a).
  Proof.
    induction l; destruct i; simpl; intros a0 HF Pa; auto; inversion HF; subst; constructor; auto.
  Qed.
End SetNth.

(* ================================================================ PART A: memory cache *)
Section MemProofs.
  Variable V : Type.
  Variable n : nat.
  Variable up : nat -> nat -> V.
  Variable limited : bool.

  Notation mstate := (mstate V).
  Notation mkM := (mkM V).
  Notation cache := (cache V).
  Notation latches := (latches V).
  Notation calls := (calls V).
  Notation mem := (mem V).
  Notation minit := (minit V n).
  Notation lookup := (lookup V).
  Notation norm := (norm n).
  Notation check := (check limited).
  Notation get1 := (get1 V up limited).
  Notation iter_from := (iter_from V up limited).
  Notation mstep := (mstep V n up limited).
  Notation mrun := (mrun V n up limited).
  Notation MVal := (MVal V).
  Notation MVals := (MVals V).
  Notation MIndexError := (MIndexError V).
  Notation MNoHandle := (MNoHandle V).
  Notation MNewHandle := (MNewHandle V).

  Definition reachable (s : mstate) : Prop := exists m ops, s = fst (mrun (minit m) ops).

  (* ---- basic facts *)
  Lemma lookup_cons : forall j v c i, lookup i ((j, v) :: c) = if j =? i then Some v else lookup i c.
  Proof. reflexivity. Qed.

  Lemma lookup_In : forall c j v, lookup j c = Some v -> In (j, v) c.
  Proof.
    induction c as [|[k w] c IH]; simpl; intros j v H; [discriminate|].
    destruct (k =? j) eqn:E.
    - apply Nat.eqb_eq in E. inversion H; subst. auto.
    - right. auto.
  Qed.

  Lemma lookup_None_notin : forall c j, lookup j c = None -> ~ In j (map fst c).
  Proof.
    induction c as [|[k w] c IH]; simpl; intros j H; [tauto|].
    destruct (k =? j) eqn:E; [discriminate|].
    apply Nat.eqb_neq in E. intros [F|F]; [congruence|]. eapply IH; eauto.
  Qed.

  Lemma norm_range : forall z j, norm z = Some j -> j < n.
  Proof.
    unfold Cache.norm. intros z j H.
    destruct (z <? 0)%Z eqn:E;
      match type of H with (if ?b then _ else _) = _ => destruct b eqn:E2 end; try discriminate;
      inversion H; subst; lia.
  Qed.

  Lemma norm_of_nat : forall j, j < n -> norm (Z.of_nat j) = Some j.
  Proof.
    unfold Cache.norm. intros j H.
    destruct (Z.of_nat j <? 0)%Z eqn:E; [lia|].
    match goal with |- (if ?b then _ else _) = _ => destruct b eqn:E2 end; [lia|].
    f_equal. lia.
  Qed.

  Lemma norm_neg : forall j, j < n -> norm (Z.of_nat j - Z.of_nat n) = Some j.
  Proof.
    unfold Cache.norm. intros j H.
    destruct (Z.of_nat j - Z.of_nat n <? 0)%Z eqn:E; [|lia].
    match goal with |- (if ?b then _ else _) = _ => destruct b eqn:E2 end; [lia|].
    f_equal. lia.
  Qed.

  (* check(): the three cases *)
  Lemma check_cases : forall l m,
    (check l m = (true, l, m) /\ (limited = false \/ (l = true /\ m = []))) \/
    (exists r, check l m = (true, l, r) /\ limited = true /\ l = true /\ m = true :: r) \/
    (check l m = (false, l, m) /\ limited = true /\ l = false) \/
    (exists r, check l m = (false, false, r) /\ limited = true /\ l = true /\ m = false :: r).
  Proof.
    intros l m. unfold Cache.check.
    destruct limited; simpl; [|left; auto].
    destruct l; simpl.
    - destruct m as [|[|] r].
      + left; auto.
      + right; left. exists r; auto.
      + right; right; right. exists r; auto.
    - right; right; left; auto.
  Qed.

  (* get1: hit and miss *)
  Lemma get1_hit : forall s h j v, lookup j (cache s) = Some v -> get1 s h j = (s, v).
  Proof. intros s h j v H. unfold Cache.get1. rewrite H. reflexivity. Qed.

  Lemma get1_miss : forall s h j, lookup j (cache s) = None ->
    exists store l' m',
      check (nth h (latches s) true) (mem s) = (store, l', m') /\
      get1 s h j = (mkM (if store then (j, up j (nth j (calls s) 0)) :: cache s else cache s)
                        (set_nth (latches s) h l')
                        (set_nth (calls s) j (S (nth j (calls s) 0))) m',
                    up j (nth j (calls s) 0)).
  Proof.
    intros s h j H. unfold Cache.get1. rewrite H.
    destruct (check (nth h (latches s) true) (mem s)) as [[store l'] m'] eqn:E.
    exists store, l', m'. auto.
  Qed.

  Lemma get1_latches_length : forall s h j, length (latches (fst (get1 s h j))) = length (latches s).
  Proof.
    intros s h j. destruct (lookup j (cache s)) eqn:E.
    - erewrite get1_hit; eauto.
    - destruct (get1_miss s h j E) as (st & l' & m' & _ & ->). simpl. apply set_nth_length.
  Qed.

  Lemma get1_calls_length : forall s h j, length (calls (fst (get1 s h j))) = length (calls s).
  Proof.
    intros s h j. destruct (lookup j (cache s)) eqn:E.
    - erewrite get1_hit; eauto.
    - destruct (get1_miss s h j E) as (st & l' & m' & _ & ->). simpl. apply set_nth_length.
  Qed.

  (* ---- A1: once cached, frozen forever *)
  Lemma get1_frozen : forall s h k j v,
    lookup j (cache s) = Some v -> lookup j (cache (fst (get1 s h k))) = Some v.
  Proof.
    intros s h k j v H. destruct (lookup k (cache s)) eqn:E.
    - erewrite get1_hit; eauto.
    - destruct (get1_miss s h k E) as (st & l' & m' & _ & ->). simpl.
      destruct st; auto. rewrite lookup_cons.
      destruct (k =? j) eqn:E2; auto. apply Nat.eqb_eq in E2. congruence.
  Qed.

  Lemma iter_from_frozen : forall js s h j v,
    lookup j (cache s) = Some v -> lookup j (cache (fst (iter_from s h js))) = Some v.
  Proof.
    induction js as [|k js IH]; simpl; intros s h j v H; auto.
    pose proof (get1_frozen s h k j v H) as H1.
    destruct (get1 s h k) as [s1 x]. simpl in H1.
    specialize (IH s1 h j v H1).
    destruct (iter_from s1 h js) as [s2 vs]. auto.
  Qed.

  Theorem cache_frozen : forall s o j v,
    lookup j (cache s) = Some v -> lookup j (cache (fst (mstep s o))) = Some v.
  Proof.
    intros s o j v H. destruct o as [h z|h|h]; simpl.
    - destruct (length (latches s) <=? h); auto.
      destruct (norm z) as [k|]; auto.
      pose proof (get1_frozen s h k j v H). destruct (get1 s h k); auto.
    - destruct (length (latches s) <=? h); auto.
    - destruct (length (latches s) <=? h); auto.
      pose proof (iter_from_frozen (seq 0 n) s h j v H). destruct (iter_from s h (seq 0 n)); auto.
  Qed.

  Theorem cache_frozen_run : forall ops s j v,
    lookup j (cache s) = Some v -> lookup j (cache (fst (mrun s ops))) = Some v.
  Proof.
    induction ops as [|o ops IH]; simpl; intros s j v H; auto.
    pose proof (cache_frozen s o j v H) as H1.
    destruct (mstep s o) as [s1 x]. simpl in H1.
    specialize (IH s1 j v H1). destruct (mrun s1 ops); auto.
  Qed.

  (* ---- A3: hits are served from the cache, state untouched *)
  Theorem hits_return_cached : forall s h z j v,
    lookup j (cache s) = Some v -> norm z = Some j -> h < length (latches s) ->
    mstep s (MGet h z) = (s, MVal v).
  Proof.
    intros s h z j v H N L. simpl.
    destruct (length (latches s) <=? h) eqn:E; [lia|].
    rewrite N. rewrite (get1_hit s h j v H). reflexivity.
  Qed.

  (* ---- the invariant *)
  Record MInv (s : mstate) : Prop := {
    mi_len : length (calls s) = n;
    mi_nodup : NoDup (map fst (cache s));
    mi_range : forall j v, In (j, v) (cache s) -> j < n;
    (* every cached value is one the pipeline produced *)
    mi_prov : forall j v, lookup j (cache s) = Some v -> exists c, c < nth j (calls s) 0 /\ v = up j c
  }.

  Lemma minit_inv : forall m, MInv (minit m).
  Proof.
    intros m. constructor; simpl.
    - apply repeat_length.
    - constructor.
    - tauto.
    - discriminate.
  Qed.

  Lemma get1_inv : forall s h j, MInv s -> j < n -> MInv (fst (get1 s h j)).
  Proof.
    intros s h j I L. destruct (lookup j (cache s)) eqn:E.
    - erewrite get1_hit; eauto.
    - destruct (get1_miss s h j E) as (st & l' & m' & _ & ->). simpl.
      destruct I as [Il Ind Ir Ip].
      constructor; simpl.
      + rewrite set_nth_length. auto.
      + destruct st; auto. simpl. constructor; auto. apply lookup_None_notin; auto.
      + intros k v H. destruct st; eauto. destruct H as [H|H]; eauto. inversion H; subst; auto.
      + intros k v H. destruct (Nat.eq_dec k j) as [->|NE].
        * rewrite nth_set_nth_same by lia.
          destruct st; [|congruence].
          rewrite lookup_cons, Nat.eqb_refl in H. inversion H; subst.
          exists (nth j (calls s) 0). split; auto.
        * rewrite nth_set_nth_other by auto.
          apply Ip. destruct st; auto.
          rewrite lookup_cons in H. destruct (j =? k) eqn:E2; auto.
          apply Nat.eqb_eq in E2. congruence.
  Qed.

  Lemma iter_from_inv : forall js s h, MInv s -> (forall j, In j js -> j < n) -> MInv (fst (iter_from s h js)).
  Proof.
    induction js as [|k js IH]; simpl; intros s h I L; auto.
    pose proof (get1_inv s h k I (L k (or_introl eq_refl))) as H1.
    destruct (get1 s h k) as [s1 x]. simpl in H1.
    specialize (IH s1 h H1 (fun j Hj => L j (or_intror Hj))).
    destruct (iter_from s1 h js); auto.
  Qed.

  Theorem mstep_inv : forall s o, MInv s -> MInv (fst (mstep s o)).
  Proof.
    intros s o I. destruct o as [h z|h|h]; simpl.
    - destruct (length (latches s) <=? h); auto.
      destruct (norm z) as [k|] eqn:N; auto.
      pose proof (get1_inv s h k I (norm_range z k N)). destruct (get1 s h k); auto.
    - destruct (length (latches s) <=? h); auto.
      destruct I; constructor; auto.
    - destruct (length (latches s) <=? h); auto.
      assert (L : forall j, In j (seq 0 n) -> j < n) by (intros j Hj; apply in_seq in Hj; lia).
      pose proof (iter_from_inv (seq 0 n) s h I L). destruct (iter_from s h (seq 0 n)); auto.
  Qed.

  Theorem mrun_inv : forall ops s, MInv s -> MInv (fst (mrun s ops)).
  Proof.
    induction ops as [|o ops IH]; simpl; intros s I; auto.
    pose proof (mstep_inv s o I) as H1.
    destruct (mstep s o) as [s1 x]. simpl in H1.
    specialize (IH s1 H1). destruct (mrun s1 ops); auto.
  Qed.

  Theorem reachable_inv : forall s, reachable s -> MInv s.
  Proof. intros s (m & ops & ->). apply mrun_inv, minit_inv. Qed.

  (* ---- A2: everything that comes out was produced by the upstream pipeline for that index *)
  Lemma get1_upstream : forall s h j, MInv s -> exists c, snd (get1 s h j) = up j c.
  Proof.
    intros s h j I. destruct (lookup j (cache s)) eqn:E.
    - erewrite get1_hit; eauto. simpl. destruct (mi_prov s I j v E) as (c & _ & ->). eauto.
    - destruct (get1_miss s h j E) as (st & l' & m' & _ & ->). simpl. eauto.
  Qed.

  Lemma iter_from_upstream : forall js s h, MInv s -> (forall j, In j js -> j < n) ->
    Forall2 (fun j v => exists c, v = up j c) js (snd (iter_from s h js)).
  Proof.
    induction js as [|k js IH]; simpl; intros s h I L; [constructor|].
    pose proof (get1_inv s h k I (L k (or_introl eq_refl))) as H1.
    pose proof (get1_upstream s h k I) as H2.
    destruct (get1 s h k) as [s1 x]. simpl in H1, H2.
    specialize (IH s1 h H1 (fun j Hj => L j (or_intror Hj))).
    destruct (iter_from s1 h js); simpl in *. constructor; auto.
  Qed.

  Lemma Forall2_seq_nth : forall (R : nat -> V -> Prop) len a l,
    Forall2 R (seq a len) l ->
    length l = len /\ forall j, j < len -> exists v, nth_error l j = Some v /\ R (a + j) v.
  Proof.
    induction len as [|len IH]; simpl; intros a l H; inversion H; subst; simpl.
    - split; auto. intros; lia.
    - destruct (IH _ _ H4) as [HL HN]. split; [lia|].
      intros [|j] Hj; simpl.
      + exists y. rewrite Nat.add_0_r. auto.
      + destruct (HN j) as (v & ? & ?); [lia|]. exists v. rewrite <- plus_n_Sm. auto.
  Qed.

  Theorem results_are_upstream : forall s h z s' v,
    MInv s -> mstep s (MGet h z) = (s', MVal v) -> exists j c, norm z = Some j /\ v = up j c.
  Proof.
    intros s h z s' v I H. simpl in H.
    destruct (length (latches s) <=? h); [discriminate|].
    destruct (norm z) as [j|] eqn:N; [|discriminate].
    destruct (get1_upstream s h j I) as (c & Hc).
    destruct (get1 s h j) as [s1 x]. simpl in Hc. inversion H; subst. eauto.
  Qed.

  Theorem iter_results_are_upstream : forall s h s' l,
    MInv s -> mstep s (MIter h) = (s', MVals l) ->
    length l = n /\ forall j, j < n -> exists c, nth_error l j = Some (up j c).
  Proof.
    intros s h s' l I H. simpl in H.
    destruct (length (latches s) <=? h); [discriminate|].
    assert (L : forall j, In j (seq 0 n) -> j < n) by (intros j Hj; apply in_seq in Hj; lia).
    pose proof (iter_from_upstream (seq 0 n) s h I L) as F.
    destruct (iter_from s h (seq 0 n)) as [s1 vs]. simpl in F. inversion H; subst.
    destruct (Forall2_seq_nth _ _ _ _ F) as [HL HN]. split; auto.
    intros j Hj. destruct (HN j Hj) as (v & Hv & c & ->). eauto.
  Qed.

  (* ---- A5: after the memory threshold *)
  Lemma check_no_store : limited = true -> forall l m,
    (l = false \/ exists r, m = false :: r) -> fst (fst (check l m)) = false.
  Proof.
    intros HL l m H.
    destruct (check_cases l m) as [[E [C|[C1 C2]]]|[(r & E & _ & C1 & C2)|[[E _]|(r & E & _)]]];
      try (rewrite E; reflexivity); try congruence;
      destruct H as [H|(r' & H)]; congruence.
  Qed.

  Theorem low_memory_no_growth : limited = true -> forall s h j,
    (nth h (latches s) true = false \/ exists r, mem s = false :: r) ->
    cache (fst (get1 s h j)) = cache s.
  Proof.
    intros HL s h j H. destruct (lookup j (cache s)) eqn:E.
    - erewrite get1_hit; eauto.
    - destruct (get1_miss s h j E) as (st & l' & m' & C & ->). simpl.
      pose proof (check_no_store HL _ _ H) as F. rewrite C in F. simpl in F. subst. reflexivity.
  Qed.

  Theorem latched_never_stores : limited = true -> forall s h j,
    nth h (latches s) true = false -> cache (fst (get1 s h j)) = cache s.
  Proof. intros HL s h j H. apply low_memory_no_growth; auto. Qed.

  (* crossing the threshold latches the handle that noticed, consumes the answer and stores nothing *)
  Theorem threshold_latches : limited = true -> forall s h j r,
    h < length (latches s) -> nth h (latches s) true = true ->
    lookup j (cache s) = None -> mem s = false :: r ->
    nth h (latches (fst (get1 s h j))) true = false /\
    mem (fst (get1 s h j)) = r /\ cache (fst (get1 s h j)) = cache s.
  Proof.
    intros HL s h j r Hh El E M.
    destruct (get1_miss s h j E) as (st & l' & m' & C & ->). simpl.
    rewrite nth_set_nth_same by auto.
    rewrite M, El in C. unfold Cache.check in C. rewrite HL in C. simpl in C.
    inversion C; subst; auto.
  Qed.

  (* ... and a latched handle stays latched *)
  Lemma nth_true_false_lt : forall (l : list bool) h, nth h l true = false -> h < length l.
  Proof.
    intros l h H. destruct (Nat.lt_ge_cases h (length l)) as [|G]; auto.
    rewrite nth_overflow in H by auto. discriminate.
  Qed.

  Lemma get1_latch_permanent : limited = true -> forall s h h' j,
    nth h (latches s) true = false -> nth h (latches (fst (get1 s h' j))) true = false.
  Proof.
    intros HL s h h' j H. destruct (lookup j (cache s)) eqn:E.
    - erewrite get1_hit; eauto.
    - destruct (get1_miss s h' j E) as (st & l' & m' & C & ->). simpl.
      destruct (Nat.eq_dec h h') as [<-|NE].
      + rewrite nth_set_nth_same by (apply nth_true_false_lt; auto).
        rewrite H in C. unfold Cache.check in C. rewrite HL in C. simpl in C. congruence.
      + rewrite nth_set_nth_other by auto. auto.
  Qed.

  Lemma iter_from_latch_permanent : limited = true -> forall js s h h',
    nth h (latches s) true = false -> nth h (latches (fst (iter_from s h' js))) true = false.
  Proof.
    intros HL. induction js as [|k js IH]; simpl; intros s h h' H; auto.
    pose proof (get1_latch_permanent HL s h h' k H) as H1.
    destruct (get1 s h' k) as [s1 x]. simpl in H1.
    specialize (IH s1 h h' H1). destruct (iter_from s1 h' js); auto.
  Qed.

  Theorem latch_permanent : limited = true -> forall s o h,
    nth h (latches s) true = false -> nth h (latches (fst (mstep s o))) true = false.
  Proof.
    intros HL s o h H. destruct o as [h' z|h'|h']; simpl.
    - destruct (length (latches s) <=? h'); auto.
      destruct (norm z) as [k|]; auto.
      pose proof (get1_latch_permanent HL s h h' k H). destruct (get1 s h' k); auto.
    - destruct (length (latches s) <=? h'); auto. simpl.
      rewrite app_nth1 by (apply nth_true_false_lt; auto). auto.
    - destruct (length (latches s) <=? h'); auto.
      pose proof (iter_from_latch_permanent HL (seq 0 n) s h h' H). destruct (iter_from s h' (seq 0 n)); auto.
  Qed.

  Theorem latch_permanent_run : limited = true -> forall ops s h,
    nth h (latches s) true = false -> nth h (latches (fst (mrun s ops))) true = false.
  Proof.
    intros HL. induction ops as [|o ops IH]; simpl; intros s h H; auto.
    pose proof (latch_permanent HL s o h H) as H1.
    destruct (mstep s o) as [s1 x]. simpl in H1.
    specialize (IH s1 h H1). destruct (mrun s1 ops); auto.
  Qed.

  (* ---- A4: while memory permits, every example is computed at most once *)
  Definition mem_fine (s : mstate) : Prop := limited = false \/ Forall (fun b => b = true) (mem s).

  Record Once (s : mstate) : Prop := {
    o_fine : mem_fine s;
    o_latch : Forall (fun b => b = true) (latches s);
    o_len : length (calls s) = n;
    o_le : forall j, j < n -> nth j (calls s) 0 <= 1;
    o_one : forall j, j < n -> nth j (calls s) 0 = 1 -> lookup j (cache s) = Some (up j 0);
    o_val : forall j v, lookup j (cache s) = Some v -> v = up j 0
  }.

  Lemma nth_repeat0 : forall k j, nth j (repeat 0 k) 0 = 0.
  Proof. induction k; destruct j; simpl; auto. Qed.

  Lemma minit_once : forall m, mem_fine (minit m) -> Once (minit m).
  Proof.
    intros m F. constructor; simpl; auto.
    - apply repeat_length.
    - intros j _. rewrite nth_repeat0. lia.
    - intros j _. rewrite nth_repeat0. discriminate.
    - discriminate.
  Qed.

  Lemma Forall_true_nth : forall (l : list bool) h, Forall (fun b => b = true) l -> nth h l true = true.
  Proof.
    induction l; destruct h; simpl; intros H; auto; inversion H; subst; auto.
  Qed.

  Lemma get1_once : forall s h j, Once s -> j < n ->
    Once (fst (get1 s h j)) /\ snd (get1 s h j) = up j 0.
  Proof.
    intros s h j O L. destruct (lookup j (cache s)) eqn:E.
    - erewrite get1_hit; eauto. simpl. split; auto. eapply o_val; eauto.
    - destruct (get1_miss s h j E) as (st & l' & m' & C & ->). simpl.
      destruct O as [Of Ol On Ole Oone Oval].
      assert (C0 : nth j (calls s) 0 = 0).
      { pose proof (Ole j L). destruct (Nat.eq_dec (nth j (calls s) 0) 1) as [E1|]; [|lia].
        rewrite (Oone j L E1) in E. discriminate. }
      rewrite C0 in *.
      rewrite (Forall_true_nth _ h Ol) in C.
      assert (St : st = true /\ l' = true /\ (limited = false \/ Forall (fun b => b = true) m')).
      { destruct (check_cases true (mem s)) as [[E1 D]|[(r & E1 & _ & _ & D)|[[_ [_ D]]|(r & _ & D1 & _ & D2)]]].
        - rewrite E1 in C. inversion C; subst. auto.
        - rewrite E1 in C. inversion C; subst. repeat split; auto.
          destruct Of as [Of|Of]; auto. right. rewrite D in Of. inversion Of; auto.
        - discriminate.
        - destruct Of as [Of|Of]; [congruence|]. rewrite D2 in Of. inversion Of; discriminate. }
      destruct St as (-> & -> & Fm).
      split; auto. constructor; simpl; auto.
      + apply Forall_set_nth; auto.
      + rewrite set_nth_length; auto.
      + intros k Hk. destruct (Nat.eq_dec k j) as [->|NE].
        * rewrite nth_set_nth_same by lia. lia.
        * rewrite nth_set_nth_other by auto. auto.
      + intros k Hk. destruct (Nat.eq_dec k j) as [->|NE].
        * rewrite Nat.eqb_refl. auto.
        * rewrite nth_set_nth_other by auto.
          destruct (j =? k) eqn:E2; [apply Nat.eqb_eq in E2; congruence|]. auto.
      + intros k v. destruct (j =? k) eqn:E2.
        * apply Nat.eqb_eq in E2. subst. congruence.
        * apply Oval.
  Qed.

  Lemma iter_from_once : forall js s h, Once s -> (forall j, In j js -> j < n) ->
    Once (fst (iter_from s h js)) /\ snd (iter_from s h js) = map (fun j => up j 0) js.
  Proof.
    induction js as [|k js IH]; simpl; intros s h O L; auto.
    destruct (get1_once s h k O (L k (or_introl eq_refl))) as [H1 H2].
    destruct (get1 s h k) as [s1 x]. simpl in H1, H2.
    destruct (IH s1 h H1 (fun j Hj => L j (or_intror Hj))) as [H3 H4].
    destruct (iter_from s1 h js); simpl in *. split; auto. congruence.
  Qed.

  (* what a step may return while memory permits: always the value of the FIRST computation *)
  Definition out_first (o : mop) (x : mout V) : Prop :=
    match o, x with
    | MGet _ z, Cache.MVal _ v => exists j, norm z = Some j /\ v = up j 0
    | MIter _, Cache.MVals _ l => l = map (fun j => up j 0) (seq 0 n)
    | _, _ => True
    end.

  Lemma mstep_once : forall s o, Once s -> Once (fst (mstep s o)) /\ out_first o (snd (mstep s o)).
  Proof.
    intros s o O. destruct o as [h z|h|h]; simpl.
    - destruct (length (latches s) <=? h); simpl; auto.
      destruct (norm z) as [k|] eqn:N; simpl; auto.
      destruct (get1_once s h k O (norm_range z k N)) as [H1 H2].
      destruct (get1 s h k); simpl in *. split; eauto.
    - destruct (length (latches s) <=? h); simpl; auto.
      split; auto. destruct O; constructor; simpl; auto.
      apply Forall_app; split; auto.
    - destruct (length (latches s) <=? h); simpl; auto.
      assert (L : forall j, In j (seq 0 n) -> j < n) by (intros j Hj; apply in_seq in Hj; lia).
      destruct (iter_from_once (seq 0 n) s h O L) as [H1 H2].
      destruct (iter_from s h (seq 0 n)); simpl in *. auto.
  Qed.

  Lemma mrun_once : forall ops s, Once s ->
    Once (fst (mrun s ops)) /\ Forall2 out_first ops (snd (mrun s ops)).
  Proof.
    induction ops as [|o ops IH]; simpl; intros s O; auto.
    destruct (mstep_once s o O) as [H1 H2].
    destruct (mstep s o) as [s1 x]. simpl in H1, H2.
    destruct (IH s1 H1) as [H3 H4]. destruct (mrun s1 ops); simpl in *. auto.
  Qed.

  Theorem once_while_memory_permits : forall m ops s outs,
    mem_fine (minit m) -> mrun (minit m) ops = (s, outs) ->
    (forall j, nth j (calls s) 0 <= 1) /\
    (forall j, nth j (calls s) 0 = 1 -> lookup j (cache s) = Some (up j 0)) /\
    Forall2 out_first ops outs.
  Proof.
    intros m ops s outs F R.
    destruct (mrun_once ops (minit m) (minit_once m F)) as [O H]. rewrite R in O, H. simpl in O, H.
    assert (B : forall j, n <= j -> nth j (calls s) 0 = 0).
    { intros j Hj. apply nth_overflow. rewrite (o_len s O). auto. }
    repeat split; auto.
    - intros j. destruct (Nat.lt_ge_cases j n) as [Hj|Hj]; [apply (o_le s O); auto|rewrite B; auto].
    - intros j Hj. destruct (Nat.lt_ge_cases j n) as [Hn|Hn]; [apply (o_one s O); auto|rewrite B in Hj; auto; discriminate].
  Qed.

  (* the same, read off position by position *)
  Lemma Forall2_nth_error : forall A B (R : A -> B -> Prop) l1 l2 k a b,
    Forall2 R l1 l2 -> nth_error l1 k = Some a -> nth_error l2 k = Some b -> R a b.
  Proof.
    intros A B R l1 l2 k a b H. revert k. induction H; intros [|k]; simpl; intros H1 H2; try discriminate.
    - inversion H1; inversion H2; subst; auto.
    - eauto.
  Qed.

  Corollary once_get_first_value : forall m ops s outs k h z v,
    mem_fine (minit m) -> mrun (minit m) ops = (s, outs) ->
    nth_error ops k = Some (MGet h z) -> nth_error outs k = Some (MVal v) ->
    exists j, norm z = Some j /\ v = up j 0.
  Proof.
    intros m ops s outs k h z v F R H1 H2.
    destruct (once_while_memory_permits m ops s outs F R) as (_ & _ & H).
    exact (Forall2_nth_error _ _ _ _ _ _ _ _ H H1 H2).
  Qed.

  Corollary once_iter_first_values : forall m ops s outs k h l,
    mem_fine (minit m) -> mrun (minit m) ops = (s, outs) ->
    nth_error ops k = Some (MIter h) -> nth_error outs k = Some (MVals l) ->
    l = map (fun j => up j 0) (seq 0 n).
  Proof.
    intros m ops s outs k h l F R H1 H2.
    destruct (once_while_memory_permits m ops s outs F R) as (_ & _ & H).
    exact (Forall2_nth_error _ _ _ _ _ _ _ _ H H1 H2).
  Qed.

  (* ---- A6: iterating is the same as indexing 0 .. n-1 in order *)
  Lemma iter_from_is_gets : forall js s h,
    h < length (latches s) -> (forall j, In j js -> j < n) ->
    mrun s (map (fun j => MGet h (Z.of_nat j)) js) =
    (fst (iter_from s h js), map MVal (snd (iter_from s h js))).
  Proof.
    induction js as [|k js IH]; intros s h Hh L; [reflexivity|].
    cbn [map Cache.mrun Cache.iter_from]. simpl Cache.mstep.
    destruct (length (latches s) <=? h) eqn:E; [lia|].
    rewrite norm_of_nat by (apply L; left; auto).
    pose proof (get1_latches_length s h k) as HL.
    destruct (get1 s h k) as [s1 x]. simpl in HL.
    rewrite IH; [|lia|intros; apply L; right; auto].
    destruct (iter_from s1 h js); reflexivity.
  Qed.

  Theorem iter_is_gets : forall s h, h < length (latches s) ->
    exists s' vs, mstep s (MIter h) = (s', MVals vs) /\
                  mrun s (map (fun j => MGet h (Z.of_nat j)) (seq 0 n)) = (s', map MVal vs).
  Proof.
    intros s h Hh. simpl.
    destruct (length (latches s) <=? h) eqn:E; [lia|].
    assert (L : forall j, In j (seq 0 n) -> j < n) by (intros j Hj; apply in_seq in Hj; lia).
    rewrite (iter_from_is_gets (seq 0 n) s h Hh L).
    destruct (iter_from s h (seq 0 n)) as [s' vs]. exists s', vs. auto.
  Qed.
End MemProofs.

(* ================================================================ PART B: disk cache *)
Section DsetLemmas.
  Context {A : Type}.

  Lemma dset_length : forall (l : list A) i a, length (dset l i a) = length l.
  Proof. induction l; destruct i; simpl; intros; auto. Qed.

  Lemma nth_error_dset_same : forall (l : list A) i a, i < length l -> nth_error (dset l i a) i = Some a.
  Proof. induction l; destruct i; simpl; intros; try lia; auto. apply IHl. lia. Qed.

  Lemma nth_error_dset_other : forall (l : list A) i k a, k <> i -> nth_error (dset l i a) k = nth_error l k.
  Proof. induction l; destruct i; destruct k; simpl; intros; try congruence; auto. Qed.
End DsetLemmas.

(* number of handles that point to wrapper w *)
Definition points (w : nat) (x : option nat) : bool :=
  match x with Some w' => w' =? w | None => false end.
Fixpoint hcount (w : nat) (hs : list (option nat)) : nat :=
  match hs with [] => 0 | x :: r => (if points w x then 1 else 0) + hcount w r end.

Lemma hcount_app : forall w a b, hcount w (a ++ b) = hcount w a + hcount w b.
Proof. induction a; simpl; intros; auto. rewrite IHa. lia. Qed.

Lemma hcount_zero : forall w hs, (forall h, nth_error hs h <> Some (Some w)) -> hcount w hs = 0.
Proof.
  induction hs as [|x hs IH]; simpl; intros H; auto.
  rewrite IH by (intros h; apply (H (S h))).
  destruct x as [w'|]; simpl; auto.
  destruct (w' =? w) eqn:E; auto. apply Nat.eqb_eq in E. subst. exfalso. apply (H 0). reflexivity.
Qed.

Lemma hcount_pos : forall w hs h, nth_error hs h = Some (Some w) -> 1 <= hcount w hs.
Proof.
  induction hs as [|x hs IH]; intros [|h]; simpl; intros H; try discriminate.
  - inversion H; subst. simpl. rewrite Nat.eqb_refl. lia.
  - specialize (IH h H). lia.
Qed.

Lemma hcount_dset_same : forall w hs h, nth_error hs h = Some (Some w) ->
  hcount w (dset hs h None) + 1 = hcount w hs.
Proof.
  induction hs as [|x hs IH]; intros [|h]; simpl; intros H; try discriminate.
  - inversion H; subst. simpl. rewrite Nat.eqb_refl. lia.
  - specialize (IH h H). lia.
Qed.

Lemma hcount_dset_other : forall w w' hs h, nth_error hs h = Some (Some w) -> w' <> w ->
  hcount w' (dset hs h None) = hcount w' hs.
Proof.
  induction hs as [|x hs IH]; intros [|h]; simpl; intros H NE; try discriminate.
  - inversion H; subst. simpl. destruct (w =? w') eqn:E; auto. apply Nat.eqb_eq in E. congruence.
  - rewrite (IH h H NE). auto.
Qed.

Lemma hcount_map_None : forall w (hs : list (option nat)), hcount w (map (fun _ => None) hs) = 0.
Proof. induction hs; simpl; auto. Qed.

Section DiskProofs.
  Variable V : Type.
  Variable n : nat.
  Variable up : nat -> V.

  Notation dstate := (dstate V).
  Notation mkD := (mkD V).
  Notation dir := (dir V).
  Notation wrappers := (wrappers V).
  Notation handles := (handles V).
  Notation dcalls := (dcalls V).
  Notation dinit := (dinit V n).
  Notation dlookup := (dlookup V).
  Notation dnorm := (dnorm n).
  Notation wrapper_of := (wrapper_of V).
  Notation dstep := (dstep V n up).
  Notation drun := (drun V n up).
  Notation DVal := (DVal V).
  Notation DIndexError := (DIndexError V).
  Notation DNoHandle := (DNoHandle V).
  Notation DNew := (DNew V).
  Notation DRefused := (DRefused V).
  Notation DDone := (DDone V).

  Inductive dreach : dstate -> Prop :=
  | dreach_init : dreach dinit
  | dreach_step : forall s o, dreach s -> dreach (fst (dstep s o)).

  Lemma dreach_run : forall ops s, dreach s -> dreach (fst (drun s ops)).
  Proof.
    induction ops as [|o ops IH]; simpl; intros s R; auto.
    pose proof (dreach_step s o R) as H1.
    destruct (dstep s o) as [s1 x]. simpl in H1.
    specialize (IH s1 H1). destruct (drun s1 ops); auto.
  Qed.

  Lemma dnorm_range : forall z j, dnorm z = Some j -> j < n.
  Proof.
    unfold Cache.dnorm. intros z j H.
    destruct (z <? 0)%Z eqn:E;
      match type of H with (if ?b then _ else _) = _ => destruct b eqn:E2 end; try discriminate;
      inversion H; subst; lia.
  Qed.

  Lemma wrapper_of_spec : forall s h w wr,
    wrapper_of s h = Some (w, wr) <->
    nth_error (handles s) h = Some (Some w) /\ nth_error (wrappers s) w = Some wr /\ w_alive wr = true.
  Proof.
    intros s h w wr. unfold Cache.wrapper_of.
    destruct (nth_error (handles s) h) as [[w'|]|]; try (split; [discriminate|intros (? & _); discriminate]).
    destruct (nth_error (wrappers s) w') as [wr'|] eqn:E.
    - destruct (w_alive wr') eqn:Al.
      + split.
        * intros H. inversion H; subst. auto.
        * intros (H1 & H2 & H3). inversion H1; subst. rewrite E in H2. inversion H2; subst. auto.
      + split; [discriminate|].
        intros (H1 & H2 & H3). inversion H1; subst. rewrite E in H2. inversion H2; subst. congruence.
    - split; [discriminate|].
      intros (H1 & H2 & H3). inversion H1; subst. congruence.
  Qed.

  (* ---- B1: the invariant *)
  Record DInv (s : dstate) : Prop := {
    (* the directory never holds a corrupt or misplaced example *)
    di_dir : forall c j v, dir s = Some c -> dlookup j c = Some v -> v = up j /\ j < n;
    (* a handle that has not been released points to a live wrapper *)
    di_handles : forall h w, nth_error (handles s) h = Some (Some w) ->
                   exists wr, nth_error (wrappers s) w = Some wr /\ w_alive wr = true;
    (* refs_exact: the reference count is the number of handles pointing to the wrapper *)
    di_refs : forall w wr, nth_error (wrappers s) w = Some wr -> w_refs wr = hcount w (handles s);
    di_calls : length (dcalls s) = n
  }.

  Lemma dinit_inv : DInv dinit.
  Proof.
    constructor; simpl.
    - discriminate.
    - intros [|h] w H; discriminate.
    - intros [|w] wr H; discriminate.
    - apply repeat_length.
  Qed.

  Lemma nth_error_snoc : forall A (l : list A) x k y,
    nth_error (l ++ [x]) k = Some y -> (k < length l /\ nth_error l k = Some y) \/ (k = length l /\ y = x).
  Proof.
    intros A l x k y H. destruct (Nat.lt_ge_cases k (length l)) as [L|G].
    - rewrite nth_error_app1 in H by auto. auto.
    - rewrite nth_error_app2 in H by auto.
      destruct (k - length l) as [|d] eqn:E; simpl in H.
      + inversion H; subst. right. split; auto. lia.
      + destruct d; discriminate.
  Qed.

  Lemma nth_error_snoc_last : forall A (l : list A) x, nth_error (l ++ [x]) (length l) = Some x.
  Proof. intros. rewrite nth_error_app2 by auto. rewrite Nat.sub_diag. reflexivity. Qed.

  (* opening: a fresh wrapper with one reference and a fresh handle pointing to it *)
  Lemma open_bookkeeping : forall d d' ws hs cs clear,
    DInv (mkD d ws hs cs) ->
    (forall c j v, d' = Some c -> dlookup j c = Some v -> v = up j /\ j < n) ->
    DInv (mkD d' (ws ++ [mkW clear 1 true]) (hs ++ [Some (length ws)]) cs).
  Proof.
    intros d d' ws hs cs clear [Id Ih Ir Ic] Hd. simpl in *.
    constructor; simpl; auto.
    - intros h w H. apply nth_error_snoc in H. destruct H as [[L H]|[_ H]].
      + destruct (Ih h w H) as (wr & H1 & H2). exists wr. split; auto.
        rewrite nth_error_app1; auto. apply nth_error_Some. congruence.
      + inversion H; subst. eexists. split; [apply nth_error_snoc_last|reflexivity].
    - intros w wr H. rewrite hcount_app. simpl. apply nth_error_snoc in H. destruct H as [[L H]|[-> ->]].
      + rewrite (Ir w wr H). destruct (length ws =? w) eqn:E; [apply Nat.eqb_eq in E; lia|]. lia.
      + rewrite Nat.eqb_refl. simpl. rewrite hcount_zero; auto.
        intros h H. destruct (Ih h _ H) as (wr & H1 & _).
        assert (length ws < length ws) by (apply nth_error_Some; congruence). lia.
  Qed.

  Theorem dstep_inv : forall s o, DInv s -> DInv (fst (dstep s o)).
  Proof.
    intros s o I. destruct o as [reuse clear|h z|h|h|].
    - (* DOpen *)
      destruct s as [d ws hs cs]. simpl.
      destruct d as [c|].
      + destruct reuse; simpl; auto. apply (open_bookkeeping (Some c)); auto. apply (di_dir _ I).
      + simpl. apply (open_bookkeeping None); auto. intros c j v H. inversion H; subst. discriminate.
    - (* DGet *)
      simpl. destruct (wrapper_of s h) as [p|]; auto.
      destruct (dnorm z) as [j|] eqn:N; auto.
      destruct (dir s) as [c|] eqn:D; auto.
      destruct (dlookup j c) as [v|] eqn:L; auto. simpl.
      destruct I as [Id Ih Ir Ic]. constructor; simpl; auto.
      + intros c' j' v H H2. injection H as <-. simpl in H2.
        destruct (j =? j') eqn:E.
        * apply Nat.eqb_eq in E. subst j'. injection H2 as <-. split; auto. eapply dnorm_range; eauto.
        * eapply Id; eauto.
      + rewrite dset_length. auto.
    - (* DCopyH *)
      simpl. destruct (wrapper_of s h) as [[w wr]|] eqn:W; auto. simpl.
      apply wrapper_of_spec in W. destruct W as (W1 & W2 & W3).
      assert (Lw : w < length (wrappers s)) by (apply nth_error_Some; congruence).
      destruct I as [Id Ih Ir Ic]. constructor; simpl; auto.
      + intros h' w' H.
        assert (O : nth_error (handles s) h' = Some (Some w') \/ w' = w).
        { apply nth_error_snoc in H. destruct H as [[_ H]|[_ H]]; auto. inversion H; auto. }
        destruct (Nat.eq_dec w' w) as [->|NE].
        * eexists. split; [apply nth_error_dset_same; auto|reflexivity].
        * destruct O as [O|O]; [|congruence].
          rewrite nth_error_dset_other by auto. eauto.
      + intros w' wr' H. rewrite hcount_app. simpl.
        destruct (Nat.eq_dec w' w) as [->|NE].
        * rewrite nth_error_dset_same in H by auto. inversion H; subst. simpl.
          rewrite Nat.eqb_refl. rewrite (Ir w wr W2). lia.
        * rewrite nth_error_dset_other in H by auto.
          destruct (w =? w') eqn:E; [apply Nat.eqb_eq in E; congruence|]. rewrite (Ir w' wr' H). lia.
    - (* DRelease *)
      simpl. destruct (wrapper_of s h) as [[w wr]|] eqn:W; auto.
      apply wrapper_of_spec in W. destruct W as (W1 & W2 & W3).
      assert (Lw : w < length (wrappers s)) by (apply nth_error_Some; congruence).
      assert (Lh : h < length (handles s)) by (apply nth_error_Some; congruence).
      pose proof (hcount_dset_same w (handles s) h W1) as Cs.
      destruct I as [Id Ih Ir Ic].
      pose proof (Ir w wr W2) as Rw.
      assert (Hold : forall h' w', nth_error (dset (handles s) h None) h' = Some (Some w') ->
                                   nth_error (handles s) h' = Some (Some w')).
      { intros h' w' H. destruct (Nat.eq_dec h' h) as [->|NE].
        - rewrite nth_error_dset_same in H by auto. discriminate.
        - rewrite nth_error_dset_other in H by auto. auto. }
      destruct (w_refs wr =? 1) eqn:E1; simpl.
      + apply Nat.eqb_eq in E1.
        constructor; simpl; auto.
        * intros c j v H. destruct (w_clear wr); [discriminate|]. eauto.
        * intros h' w' H. destruct (Nat.eq_dec w' w) as [->|NE].
          -- pose proof (hcount_pos _ _ _ H). lia.
          -- rewrite nth_error_dset_other by auto. eauto.
        * intros w' wr' H. destruct (Nat.eq_dec w' w) as [->|NE].
          -- rewrite nth_error_dset_same in H by auto. inversion H; subst. simpl. lia.
          -- rewrite nth_error_dset_other in H by auto.
             rewrite (hcount_dset_other w w' _ _ W1 NE). auto.
      + constructor; simpl; auto.
        * intros h' w' H. destruct (Nat.eq_dec w' w) as [->|NE].
          -- eexists. split; [apply nth_error_dset_same; auto|reflexivity].
          -- rewrite nth_error_dset_other by auto. eauto.
        * intros w' wr' H. destruct (Nat.eq_dec w' w) as [->|NE].
          -- rewrite nth_error_dset_same in H by auto. inversion H; subst. simpl. lia.
          -- rewrite nth_error_dset_other in H by auto.
             rewrite (hcount_dset_other w w' _ _ W1 NE). auto.
    - (* DKill *)
      simpl. destruct I as [Id Ih Ir Ic]. constructor; simpl; auto.
      + intros h w H. rewrite nth_error_map in H. destruct (nth_error (handles s) h); discriminate.
      + intros w wr H. rewrite nth_error_map in H. rewrite hcount_map_None.
        destruct (nth_error (wrappers s) w); inversion H; subst. reflexivity.
      + apply repeat_length.
  Qed.

  Theorem disk_inv : forall s, dreach s -> DInv s.
  Proof. induction 1; [apply dinit_inv|apply dstep_inv; auto]. Qed.

  Corollary disk_dir_sound : forall s c j v,
    dreach s -> dir s = Some c -> dlookup j c = Some v -> v = up j /\ j < n.
  Proof. intros s c j v R. apply (di_dir s (disk_inv s R)). Qed.

  Corollary refs_exact : forall s h w wr,
    dreach s -> wrapper_of s h = Some (w, wr) -> w_refs wr = hcount w (handles s) /\ 1 <= w_refs wr.
  Proof.
    intros s h w wr R W. apply wrapper_of_spec in W. destruct W as (W1 & W2 & _).
    pose proof (di_refs s (disk_inv s R) w wr W2) as H. split; auto.
    rewrite H. eapply hcount_pos; eauto.
  Qed.

  (* ---- B2 *)
  Theorem disk_values : forall s h z s' v,
    dreach s -> dstep s (DGet h z) = (s', DVal v) -> exists j, dnorm z = Some j /\ v = up j.
  Proof.
    intros s h z s' v R H. simpl in H.
    destruct (wrapper_of s h); [|discriminate].
    destruct (dnorm z) as [j|]; [|discriminate].
    destruct (dir s) as [c|] eqn:D; [|discriminate].
    exists j. split; auto.
    destruct (dlookup j c) as [v'|] eqn:L; inversion H; subst; auto.
    eapply disk_dir_sound; eauto.
  Qed.

  (* ---- B3 *)
  Theorem reuse_no_recompute : forall s h z c j v,
    dir s = Some c -> dlookup j c = Some v -> dnorm z = Some j -> wrapper_of s h <> None ->
    dstep s (DGet h z) = (s, DVal v).
  Proof.
    intros s h z c j v D L N W. simpl.
    destruct (wrapper_of s h); [|congruence].
    rewrite N, D, L. reflexivity.
  Qed.

  (* releasing h would remove the directory: h is the last reference of a clear=true wrapper *)
  Definition last_clear (s : dstate) (h : nat) : bool :=
    match wrapper_of s h with
    | Some (_, wr) => (w_refs wr =? 1) && w_clear wr
    | None => false
    end.

  Theorem stored_survives : forall s o c j v,
    dir s = Some c -> dlookup j c = Some v ->
    (forall h, o = DRelease h -> last_clear s h = false) ->
    exists c', dir (fst (dstep s o)) = Some c' /\ dlookup j c' = Some v.
  Proof.
    intros s o c j v D L NL. destruct o as [reuse clear|h z|h|h|]; simpl.
    - rewrite D. destruct reuse; simpl; eauto.
    - destruct (wrapper_of s h); simpl; eauto.
      destruct (dnorm z) as [k|]; simpl; eauto.
      rewrite D. destruct (dlookup k c) as [v'|] eqn:Lk; simpl; eauto.
      eexists. split; eauto. simpl.
      destruct (k =? j) eqn:E; auto. apply Nat.eqb_eq in E. congruence.
    - destruct (wrapper_of s h) as [[w wr]|]; simpl; eauto.
    - specialize (NL h eq_refl). unfold last_clear in NL.
      destruct (wrapper_of s h) as [[w wr]|]; simpl; eauto.
      destruct (w_refs wr =? 1); simpl; eauto.
      simpl in NL. rewrite NL. eauto.
    - eauto.
  Qed.

  Corollary stored_survives_kill : forall s c j v,
    dir s = Some c -> dlookup j c = Some v ->
    dir (fst (dstep s DKill)) = Some c /\ dcalls (fst (dstep s DKill)) = repeat 0 n.
  Proof. intros. simpl. auto. Qed.

  (* ---- B4 *)
  Theorem refuse_nonempty : forall s clear, dir s <> None -> dstep s (DOpen false clear) = (s, DRefused).
  Proof. intros s clear H. simpl. destruct (dir s); congruence. Qed.

  Theorem open_fresh : forall s reuse clear, dir s = None ->
    exists h, snd (dstep s (DOpen reuse clear)) = DNew h /\
              dir (fst (dstep s (DOpen reuse clear))) = Some [] /\
              wrapper_of (fst (dstep s (DOpen reuse clear))) h = Some (length (wrappers s), mkW clear 1 true).
  Proof.
    intros s reuse clear H. simpl. rewrite H. simpl. eexists. split; [reflexivity|]. split; auto.
    unfold Cache.wrapper_of. simpl. rewrite nth_error_snoc_last, nth_error_snoc_last. reflexivity.
  Qed.

  Theorem open_reuse : forall s clear c, dir s = Some c ->
    exists h, snd (dstep s (DOpen true clear)) = DNew h /\
              dir (fst (dstep s (DOpen true clear))) = Some c /\
              dcalls (fst (dstep s (DOpen true clear))) = dcalls s /\
              wrapper_of (fst (dstep s (DOpen true clear))) h = Some (length (wrappers s), mkW clear 1 true).
  Proof.
    intros s clear c H. simpl. rewrite H. simpl. eexists. split; [reflexivity|]. repeat split; auto.
    unfold Cache.wrapper_of. simpl. rewrite nth_error_snoc_last, nth_error_snoc_last. reflexivity.
  Qed.

  (* ---- B5 *)
  Theorem cleared_iff : forall s h w wr,
    wrapper_of s h = Some (w, wr) ->
    (w_refs wr = 1 ->
       dir (fst (dstep s (DRelease h))) = (if w_clear wr then None else dir s) /\
       nth_error (wrappers (fst (dstep s (DRelease h)))) w = Some (mkW (w_clear wr) 0 false)) /\
    (w_refs wr <> 1 ->
       dir (fst (dstep s (DRelease h))) = dir s /\
       nth_error (wrappers (fst (dstep s (DRelease h)))) w = Some (mkW (w_clear wr) (w_refs wr - 1) true)).
  Proof.
    intros s h w wr W. simpl. rewrite W.
    apply wrapper_of_spec in W. destruct W as (W1 & W2 & W3).
    assert (Lw : w < length (wrappers s)) by (apply nth_error_Some; congruence).
    split; intros H.
    - apply Nat.eqb_eq in H. rewrite H. simpl. split; auto. apply nth_error_dset_same; auto.
    - apply Nat.eqb_neq in H. rewrite H. simpl. split; auto. apply nth_error_dset_same; auto.
  Qed.

  (* with refs_exact: the directory disappears exactly when the LAST handle sharing the cache is released and clear=True *)
  Theorem removed_iff_last_and_clear : forall s h w wr,
    dreach s -> wrapper_of s h = Some (w, wr) -> dir s <> None ->
    (dir (fst (dstep s (DRelease h))) = None <-> hcount w (handles s) = 1 /\ w_clear wr = true).
  Proof.
    intros s h w wr R W D.
    destruct (refs_exact s h w wr R W) as [E _]. rewrite <- E.
    destruct (cleared_iff s h w wr W) as [C1 C2].
    destruct (Nat.eq_dec (w_refs wr) 1) as [E1|NE1].
    - destruct (C1 E1) as [-> _]. destruct (w_clear wr); split; auto; try tauto.
      intros [_ ?]; discriminate.
    - destruct (C2 NE1) as [-> _]. split; [congruence|tauto].
  Qed.
End DiskProofs.

(* ---------------------------------------------------------------- concrete lifecycles *)
(* open (clear=True), get, copy, release the original: directory still there, the copy is served without recomputation;
   release the copy: directory gone *)
Example disk_lifecycle_clear :
  let ops1 := [DOpen false true; DGet 0 1%Z; DCopyH 0; DRelease 0] in
  dir nat (fst (drun nat 3 (fun j => 10 * j) (dinit nat 3) ops1)) = Some [(1, 10)] /\
  drun nat 3 (fun j => 10 * j) (dinit nat 3) (ops1 ++ [DGet 1 (-2)%Z; DGet 0 1%Z; DRelease 1]) =
  (mkD nat None [mkW true 0 false] [None; None] [0; 1; 0],
   [DNew nat 0; DVal nat 10; DNew nat 1; DDone nat; DVal nat 10; DNoHandle nat; DDone nat]).
Proof. vm_compute. split; reflexivity. Qed.

(* open (clear=False), get, the process dies, reopen with reuse=True: value served with zero upstream calls;
   reopening with reuse=False is refused *)
Example disk_lifecycle_reuse :
  drun nat 3 (fun j => 10 * j) (dinit nat 3)
       [DOpen false false; DGet 0 (-1)%Z; DKill; DGet 0 2%Z; DOpen false false; DOpen true false; DGet 1 2%Z] =
  (mkD nat (Some [(2, 20)]) [mkW false 0 false; mkW false 1 true] [None; Some 1] [0; 0; 0],
   [DNew nat 0; DVal nat 20; DDone nat; DNoHandle nat; DRefused nat; DNew nat 1; DVal nat 20]).
Proof. vm_compute. reflexivity. Qed.

Print Assumptions cache_frozen.
Print Assumptions cache_frozen_run.
Print Assumptions hits_return_cached.
Print Assumptions mstep_inv.
Print Assumptions reachable_inv.
Print Assumptions results_are_upstream.
Print Assumptions iter_results_are_upstream.
Print Assumptions low_memory_no_growth.
Print Assumptions latched_never_stores.
Print Assumptions threshold_latches.
Print Assumptions latch_permanent_run.
Print Assumptions once_while_memory_permits.
Print Assumptions once_get_first_value.
Print Assumptions once_iter_first_values.
Print Assumptions iter_is_gets.
Print Assumptions disk_inv.
Print Assumptions disk_dir_sound.
Print Assumptions refs_exact.
Print Assumptions disk_values.
Print Assumptions reuse_no_recompute.
Print Assumptions stored_survives.
Print Assumptions stored_survives_kill.
Print Assumptions refuse_nonempty.
Print Assumptions open_fresh.
Print Assumptions open_reuse.
Print Assumptions cleared_iff.
Print Assumptions removed_iff_last_and_clear.
Print Assumptions disk_lifecycle_clear.
Print Assumptions disk_lifecycle_reuse.
