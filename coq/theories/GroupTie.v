(* GroupTie.v - correspondence helper for Dataset.groupby: the groups (in dict order) and what iterating each yields *)
From Coq Require Import String.
From Coq Require Import List Arith ZArith Bool.
Require Import LD.Base LD.PySlice LD.Pipeline LD.Build LD.BuildExtra.
Import ListNotations.

Definition gcase := (prog * (val -> res val) * option (list (skey * trace)))%type.   (* None = groupby raised *)
Definition group_obs (p : prog) (gf : val -> res val) : option (list (skey * trace)) :=
  match build p with
  | Err _ => None
  | Ok d => match groupby gf d with
            | Err _ => None
            | Ok gs => Some (map (fun g => (fst g, iter_ false (snd g))) gs)
            end
  end.
Definition gobs_eqb (a b : option (list (skey * trace))) : bool :=
  match a, b with
  | None, None => true
  | Some x, Some y => list_eqb (fun g h => skey_eqb (fst g) (fst h) && trace_eqb (snd g) (snd h)) x y
  | _, _ => false
  end.
Fixpoint gbad (j : nat) (cs : list gcase) : list (nat * option (list (skey * trace))) :=
  match cs with
  | [] => []
  | (p, gf, e) :: r => let m := group_obs p gf in
                       if gobs_eqb m e then gbad (S j) r else (j, m) :: gbad (S j) r
  end.
