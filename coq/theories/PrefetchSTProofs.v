From Coq Require Import List Arith Bool Lia.
Import ListNotations.
Require Import LD.PrefetchST.

Section Proofs.
Variable B : nat.
Variable K : option nat.
Variable cb : bool.
Hypothesis Bpos : 1 <= B.

Notation step := (step B K cb).

Definition post_shutdown (c : cpc) : bool :=
  match c with C5 | C6 | C7 | CEnd => true | _ => false end.

Definition puts_left (w : wpc) : nat :=
  match w with W3 _ | WPutS => 1 | _ => 0 end.

Definition sentinel_seen (s : st) : Prop :=
  In Sentinel (q s) \/ cp s = C2 Sentinel \/ cp s = C4 .

Record Inv (s : st) : Prop := {
  I_sd   : shutdown s = post_shutdown (cp s);
  I_end  : shutdown s = false -> wp s = WEnd -> sentinel_seen s;
  I_join : cp s = C6 -> length (q s) + puts_left (wp s) <= 1;
  I_done : cp s = C7 \/ cp s = CEnd -> wp s = WEnd;
  I_c0   : cp s = C0 -> wp s = W0 /\ q s = [];
  I_qB   : length (q s) <= B;
}.

Lemma inv_init l : Inv (init l).
Proof. constructor; simpl; intros; try discriminate; try lia; auto.
  destruct H; discriminate. Qed.

Ltac inv_step :=
  repeat match goal with
  | H : Some _ = Some _ |- _ => inversion H; subst; clear H
  | H : None = Some _ |- _ => discriminate
  | H : context [if ?b then _ else _] |- _ => destruct b eqn:?
  | H : context [match ?x with _ => _ end] |- _ => destruct x eqn:?
  end.

Lemma in_app_sent (l : list item) x : In Sentinel (l ++ [x]) <-> In Sentinel l \/ x = Sentinel.
Proof. rewrite in_app_iff. simpl. intuition congruence. Qed.

Lemma puts_left_le w : puts_left w <= 1.
Proof. destruct w; simpl; lia. Qed.

Lemma inv_step s t s' : Inv s -> step s t = Some s' -> Inv s'.
Proof.
  intros [Isd Iend Ijoin Idone Ic0 IqB] Hs.
  destruct t; simpl in Hs.
  - (* consumer *)
    unfold PrefetchST.cstep, set_c in Hs.
    destruct (cp s) eqn:Hc; inv_step; constructor; simpl in *;
      unfold sentinel_seen in *; simpl in *; rewrite ?Hc in *; intros;
      try congruence; try lia; try (intuition congruence); auto using puts_left_le.
    all: try (specialize (Ic0 eq_refl); intuition congruence).
    all: try solve [ repeat match goal with H : _ -> _ |- _ => specialize (H eq_refl) end;
                     intuition (try congruence); simpl in *; intuition congruence ].
    all: try (match goal with |- puts_left ?w <= 1 => apply puts_left_le end).
    rewrite Heql in Iend. simpl in Iend. destruct (Iend H H0) as [[->|?]|[?|?]]; auto; congruence.
  - (* worker *)
    unfold PrefetchST.wstep, set_w in Hs.
    destruct (cp s) eqn:Hc; try discriminate;
    destruct (shutdown s) eqn:Hsd; simpl in Isd; try discriminate Isd;
    destruct (wp s) eqn:Hw; inv_step; constructor; simpl in *;
      unfold sentinel_seen in *; simpl in *; rewrite ?Hsd in *; intros;
      try congruence; try lia; try (intuition congruence); auto;
      rewrite ?app_length, ?in_app_sent in *; simpl in *;
      try apply Nat.ltb_lt in Heqb; try lia; try (intuition congruence);
      try (specialize (Ijoin eq_refl); simpl in *; lia).
Qed.

Lemma inv_reach l s : reach B K cb (init l) s -> Inv s.
Proof. induction 1; eauto using inv_init, inv_step. Qed.

(* ---- progress: no reachable non-terminal state is stuck ---- *)
Theorem progress l s : reach B K cb (init l) s -> ~ terminal K s -> exists t s', step s t = Some s'.
Proof.
  intros Hr Hnt. apply inv_reach in Hr. destruct Hr as [Isd Iend Ijoin Idone Ic0 IqB].
  unfold terminal in Hnt.
  destruct (cp s) eqn:Hc.
  - (* C0 *) exists TC. simpl. unfold cstep. rewrite Hc.
    destruct K as [[|k]|]; eauto. exfalso; apply Hnt; right; auto.
  - (* C1 *) destruct (q s) eqn:Hq.
    + exists TW. simpl. unfold wstep. rewrite Hc.
      assert (shutdown s = false) by (rewrite Isd; reflexivity).
      destruct (wp s) eqn:Hw; try rewrite Hq; simpl;
        try (destruct (shutdown s); eauto; fail); eauto.
      * destruct (src s) as [|[v|ie tg] r]; eauto. destruct (ie || cb); eauto.
      * destruct B; [lia|]. simpl. eauto.
      * destruct B; [lia|]. simpl. eauto.
      * exfalso. destruct (Iend H eq_refl) as [F|[F|F]]; try congruence. rewrite Hq in F; inversion F.
    + exists TC. simpl. unfold cstep. rewrite Hc, Hq. eauto.
  - exists TC. simpl. unfold cstep. rewrite Hc. destruct it; eauto.
  - exists TC. simpl. unfold cstep. rewrite Hc. destruct (want_close _ _); eauto.
  - exists TC. simpl. unfold cstep. rewrite Hc. eauto.
  - exists TC. simpl. unfold cstep. rewrite Hc. destruct (q s); eauto.
  - (* C6 *) destruct (wp s) eqn:Hw; try (exists TC; simpl; unfold cstep; rewrite Hc, Hw; eauto; fail);
    exists TW; simpl; unfold wstep; rewrite Hc, Hw; eauto;
    try (destruct (shutdown s); eauto; fail).
    + destruct (src s) as [|[v|ie tg] r]; eauto. destruct (ie || cb); eauto.
    + specialize (Ijoin eq_refl). simpl in Ijoin.
      assert (length (q s) <? B = true) by (apply Nat.ltb_lt; lia). rewrite H. eauto.
    + specialize (Ijoin eq_refl). simpl in Ijoin.
      assert (length (q s) <? B = true) by (apply Nat.ltb_lt; lia). rewrite H. eauto.
  - exists TC. simpl. unfold cstep. rewrite Hc. eauto.
  - exfalso. apply Hnt. left; reflexivity.
Qed.

(* ---- termination measure ---- *)
Definition rank_w (w : wpc) : nat :=
  match w with WEnd => 0 | WPutS => 1 | WFin => 2 | WExc _ => 3 | W1 => 4 | W4 => 5 | W3 _ => 6 | W2 _ => 7 | W0 => 8 end.
Definition rank_c (c : cpc) : nat :=
  match c with CEnd => 0 | C7 => 1 | C6 => 2 | C5 => 3 | C4 => 4 | C1 => 5 | C3 => 6 | C2 _ => 7 | C0 => 8 end.
Definition pot (w : wpc) : nat :=
  match w with WEnd => 0 | W2 _ | W3 _ => 2 | _ => 1 end.
Definition mu (s : st) : nat :=
  5 * length (src s) + rank_w (wp s) + 4 * (length (q s) + length (src s) + pot (wp s)) + rank_c (cp s).

Theorem measure_decreases s t s' : step s t = Some s' -> mu s' < mu s.
Proof.
  intros Hs. destruct t; simpl in Hs.
  - unfold PrefetchST.cstep, set_c in Hs. destruct (cp s) eqn:Hc; inv_step; unfold mu; simpl; rewrite ?Hc; simpl; try lia.
    all: try (rewrite Heql; simpl; lia).
  - unfold PrefetchST.wstep, set_w in Hs. destruct (cp s) eqn:Hc; try discriminate;
    destruct (wp s) eqn:Hw; inv_step; unfold mu; simpl; rewrite ?Hc, ?Hw, ?app_length; simpl; try lia.
    all: try (rewrite Heql; simpl; lia).
    all: try (destruct (shutdown s); simpl; lia).
Qed.
End Proofs.
Print Assumptions progress.
Print Assumptions measure_decreases.
