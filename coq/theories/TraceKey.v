(* TraceKey.v - Model B, keyed access ds[key] with events.
   A key names one source example: (source stage id, position in that source) - the harness uses dict-backed
   sources whose key strings encode exactly that pair.  Definitions only; proofs in TraceKeyProofs.v. *)
From Coq Require Import List Arith Bool.
Require Import LD.Base LD.Trace LD.TraceTie.
Import ListNotations.
Local Open Scope nat_scope.

Definition key := (nat * nat)%type.
Definition key_eqb (a b : key) : bool := Nat.eqb (fst a) (fst b) && Nat.eqb (snd a) (snd b).
Definition key_mem (k : key) (l : list key) : bool := existsb (key_eqb k) l.

(* keys(): defined for sources, maps, selections and concatenations of such; a lazy filter, batches, unbatch and the
   positional zip have no key view (None = the implementation refuses) *)
Fixpoint keys_s (d : lds) : option (list key) :=
  match d with
  | LSrc id vs => Some (map (fun i => (id, i)) (seq 0 (length vs)))
  | LMap _ _ d' => keys_s d'
  | LFilter _ _ _ | LBatch _ _ _ | LUnbatch _ _ | LZip _ _ _ => None
  | LConcat _ a b => match keys_s a, keys_s b with Some ka, Some kb => Some (ka ++ kb) | _, _ => None end
  | LSlice _ idx d' =>
      match keys_s d' with
      | Some ks => Some (flat_map (fun i => match nth_error ks i with Some k => [k] | None => [] end) idx)
      | None => None
      end
  end.

(* result of ds[key]: the example with the events it caused; a miss (KeyError / IndexError) with the events it caused;
   or the lookup is not supported by that stage *)
Inductive kres := KVal (e : list ev) (v : val) | KMiss (e : list ev) | KUnsup.

Fixpoint getk_s (d : lds) (k : key) : kres :=
  match d with
  | LSrc id vs =>
      if Nat.eqb (fst k) id
      then match nth_error vs (snd k) with Some v => KVal [Fetch id] v | None => KMiss [Fail id] end
      else KMiss [Fail id]
  | LMap id f d' =>
      match getk_s d' k with
      | KVal e v => KVal (e ++ [App id v; Fetch id]) (f v)
      | KMiss e => KMiss (e ++ [Fail id])
      | KUnsup => KUnsup
      end
  | LFilter id p d' =>
      match getk_s d' k with
      | KVal e v => if p v then KVal (e ++ [App id v; Fetch id]) v else KMiss (e ++ [App id v; Fail id])
      | KMiss e => KMiss (e ++ [Fail id])
      | KUnsup => KUnsup
      end
  | LConcat id a b =>
      match keys_s a, keys_s b with
      | Some ka, Some kb =>
          if key_mem k ka
          then match getk_s a k with KVal e v => KVal (e ++ [Fetch id]) v | KMiss e => KMiss (e ++ [Fail id]) | KUnsup => KUnsup end
          else if key_mem k kb
          then match getk_s b k with KVal e v => KVal (e ++ [Fetch id]) v | KMiss e => KMiss (e ++ [Fail id]) | KUnsup => KUnsup end
          else KMiss [Fail id]
      | _, _ => KUnsup
      end
  | LSlice id idx d' =>
      match keys_s (LSlice id idx d') with
      | Some ks =>
          if key_mem k ks
          then match getk_s d' k with KVal e v => KVal (e ++ [Fetch id]) v | KMiss e => KMiss (e ++ [Fail id]) | KUnsup => KUnsup end
          else KMiss [Fail id]
      | None => KUnsup
      end
  | LBatch _ _ _ | LUnbatch _ _ | LZip _ _ _ => KUnsup
  end.

(* ---- what the harness sees of one keyed lookup ---- *)
Inductive kobs := OVal (a : list (nat * val)) (v : val) | OMiss (a : list (nat * val)) | OUnsup.
Definition getk_obs (d : lds) (k : key) : kobs :=
  match getk_s d k with KVal e v => OVal (apps e) v | KMiss e => OMiss (apps e) | KUnsup => OUnsup end.
Definition kobs_eqb (a b : kobs) : bool :=
  match a, b with
  | OVal x v, OVal y w => list_eqb av_eqb x y && val_eqb v w
  | OMiss x, OMiss y => list_eqb av_eqb x y
  | OUnsup, OUnsup => true
  | _, _ => false
  end.
Definition okeys_eqb (a b : option (list key)) : bool :=
  match a, b with Some x, Some y => list_eqb key_eqb x y | None, None => true | _, _ => false end.

(* a case: pipeline; observed keys() (None = refused); observed keyed lookups *)
Record kcase := mkKC { k_d : lds; k_keys : option (list key); k_gets : list (key * kobs) }.
Definition kcase_ok (c : kcase) : list nat :=
  (if okeys_eqb (keys_s (k_d c)) (k_keys c) then [] else [1]) ++
  (if forallb (fun g => kobs_eqb (getk_obs (k_d c) (fst g)) (snd g)) (k_gets c) then [] else [2]).
Fixpoint kbad (j : nat) (cs : list kcase) : list (nat * list nat) :=
  match cs with [] => [] | c :: r => match kcase_ok c with [] => kbad (S j) r | m => (j, m) :: kbad (S j) r end end.
