(* RefCheck.v - executable test of the `agrees` statement on concrete descriptors (statement
   testing before proving; used by the tie as well: it runs on every generated program). *)
From Coq Require Import String.
From Coq Require Import List Arith ZArith Bool Lia.
Require Import LD.Base LD.PySlice LD.Pipeline LD.Build LD.Ref.
Import ListNotations.
Open Scope Z_scope.

Definition tab_functional (t : tab) : bool :=
  forallb (fun kv => match assoc (fst kv) t with Some v => val_eqb v (snd kv) | None => false end) t.

Definition agrees_check (d : ds) (t : tab) (probe : list key) : list nat :=
  let n := Z.of_nat (length t) in
  (if trace_eqb (iter_ false d) (vals t, End) then [] else [1%nat]) ++
  (if negb (keyedb d) || trace_eqb (iter_ true d) (pairs t, End) then [] else [2%nat]) ++
  (match len_ d with Ok m => if (m =? length t)%nat then [] else [3%nat] | Err _ => [] end) ++
  (if indexable d && ikeyed d then
     (match len_ d with Ok m => if (m =? length t)%nat then [] else [4%nat] | Err _ => [4%nat] end) ++
     (if forallb (fun i => res_eqb val_eqb (get_i d i) (py_nth (vals t) i))
                 (map (fun j => Z.of_nat j - n - 3) (seq 0 (2 * length t + 6))) then [] else [5%nat])
   else []) ++
  (match keys_ d with
   | Ok ks =>
       (if keyedb d && list_eqb String.eqb ks (map fst t) && tab_functional t && indexable d && ikeyed d then [] else [6%nat]) ++
       (if forallb (fun k => match assoc k t with
                             | Some v => res_eqb val_eqb (get_k d k) (Ok v)
                             | None => match get_k d k with Err _ => true | Ok _ => false end
                             end) (ks ++ probe) then [] else [7%nat])
   | Err _ => []
   end).

Definition ref_check_prog (p : prog) : list nat :=
  match build p with
  | Err _ => []
  | Ok d => if wfb d then match tbl d with Some t => agrees_check d t ["zz"; "a"; "q0"]%string | None => [] end else [99%nat]
  end.
Definition has_ref (p : prog) : bool :=
  match build p with Ok d => match tbl d with Some _ => true | None => false end | Err _ => false end.
