From Coq Require Import List Arith Bool Lia.
Import ListNotations.

(* ---------- model of parallel_utils.single_thread_prefetch ---------- *)
Inductive item := Val (v : nat) | Sentinel.
Inductive sev := SOk (v : nat) | SFail (is_exc : bool) (tag : nat).  (* is_exc: subclass of Exception *)

Inductive wpc := W0 | W1 | W2 (v : nat) | W3 (v : nat) | W4 | WExc (tag : nat) | WFin | WPutS | WEnd.
Inductive cpc := C0 | C1 | C2 (it : item) | C3 | C4 | C5 | C6 | C7 | CEnd.

Record st := mk {
  src : list sev; q : list item; shutdown : bool; exc : option nat;
  wp : wpc; cp : cpc; delivered : list nat; pulled : nat; closing : bool;
  died : option nat  (* uncaught BaseException in worker thread *)
}.

Section Params.
Variable B : nat.            (* buffer_size *)
Variable K : option nat.     (* consumer script: Some k = close after k examples; None = exhaust *)
Variable catch_base : bool.  (* false = code as pinned (except Exception); true = repaired *)

Definition init (s : list sev) : st :=
  mk s [] false None W0 C0 [] 0 false None.

Definition want_close (n : nat) : bool :=
  match K with Some k => k <=? n | None => false end.

Inductive tid := TC | TW.

Definition set_w (s : st) (w : wpc) : st :=
  mk (src s) (q s) (shutdown s) (exc s) w (cp s) (delivered s) (pulled s) (closing s) (died s).
Definition set_c (s : st) (c : cpc) : st :=
  mk (src s) (q s) (shutdown s) (exc s) (wp s) c (delivered s) (pulled s) (closing s) (died s).

Definition wstep (s : st) : option st :=
  match cp s with C0 => None | _ =>
  match wp s with
  | W0 => Some (set_w s (if shutdown s then WFin else W1))
  | W1 => match src s with
          | [] => Some (set_w s WFin)
          | SOk v :: r => Some (mk r (q s) (shutdown s) (exc s) (W2 v) (cp s) (delivered s) (S (pulled s)) (closing s) (died s))
          | SFail ie t :: r =>
              if ie || catch_base
              then Some (mk [] (q s) (shutdown s) (exc s) (WExc t) (cp s) (delivered s) (pulled s) (closing s) (died s))
              else Some (mk [] (q s) (shutdown s) (exc s) WFin (cp s) (delivered s) (pulled s) (closing s) (Some t))
          end
  | W2 v => Some (set_w s (if shutdown s then WFin else W3 v))
  | W3 v => if length (q s) <? B
            then Some (mk (src s) (q s ++ [Val v]) (shutdown s) (exc s) W4 (cp s) (delivered s) (pulled s) (closing s) (died s))
            else None
  | W4 => Some (set_w s (if shutdown s then WFin else W1))
  | WExc t => Some (mk (src s) (q s) (shutdown s) (Some t) WFin (cp s) (delivered s) (pulled s) (closing s) (died s))
  | WFin => Some (set_w s (if shutdown s then WEnd else WPutS))
  | WPutS => if length (q s) <? B
            then Some (mk (src s) (q s ++ [Sentinel]) (shutdown s) (exc s) WEnd (cp s) (delivered s) (pulled s) (closing s) (died s))
            else None
  | WEnd => None
  end end.

Definition cstep (s : st) : option st :=
  match cp s with
  | C0 => match K with Some 0 => None | _ => Some (set_c s C1) end
  | C1 => match q s with
          | [] => None
          | it :: r => Some (mk (src s) r (shutdown s) (exc s) (wp s) (C2 it) (delivered s) (pulled s) (closing s) (died s))
          end
  | C2 Sentinel => Some (set_c s C4)
  | C2 (Val v) => Some (mk (src s) (q s) (shutdown s) (exc s) (wp s) C3 (delivered s ++ [v]) (pulled s) (closing s) (died s))
  | C3 => if want_close (length (delivered s))
          then Some (mk (src s) (q s) (shutdown s) (exc s) (wp s) C4 (delivered s) (pulled s) true (died s))
          else Some (set_c s C1)
  | C4 => Some (mk (src s) (q s) true (exc s) (wp s) C5 (delivered s) (pulled s) (closing s) (died s))
  | C5 => match q s with
          | [] => Some (set_c s C6)
          | _ :: r => Some (mk (src s) r (shutdown s) (exc s) (wp s) C5 (delivered s) (pulled s) (closing s) (died s))
          end
  | C6 => match wp s with WEnd => Some (set_c s C7) | _ => None end
  | C7 => Some (set_c s CEnd)
  | CEnd => None
  end.

Definition step (s : st) (t : tid) : option st :=
  match t with TC => cstep s | TW => wstep s end.

Fixpoint run (s : st) (sched : list tid) : st :=
  match sched with
  | [] => s
  | t :: r => match step s t with Some s' => run s' r | None => run s r end
  end.

Inductive reach (s0 : st) : st -> Prop :=
| reach0 : reach s0 s0
| reachS : forall s t s', reach s0 s -> step s t = Some s' -> reach s0 s'.

Definition oks (l : list sev) : list nat :=
  flat_map (fun e => match e with SOk v => [v] | _ => [] end) l.
Fixpoint oks_before (l : list sev) : list nat :=
  match l with SOk v :: r => v :: oks_before r | _ => [] end.

Definition vals (l : list item) : list nat :=
  flat_map (fun e => match e with Val v => [v] | _ => [] end) l.

Definition terminal (s : st) : Prop :=
  cp s = CEnd \/ (cp s = C0 /\ K = Some 0).

End Params.
