(* RefLemmas_A1.v - per-stage agreement lemmas (model vs. reference) for the stages
   DList, DListWu, DDict, DMap, DParMap, DFilter, DCycle.
   The first part of the file is a small library of reusable helper lemmas. *)
From Coq Require Import String.
From Coq Require Import List Arith ZArith Bool Lia ZifyBool ZifyNat.
Require Import LD.Base LD.PySlice LD.Pipeline LD.Ref.
Import ListNotations.
Open Scope Z_scope.

(* ====================================================================== *)
(* Reusable helpers                                                        *)
(* ====================================================================== *)

(* ---------- tab / vals / pairs / nokey ---------- *)
Lemma vals_nokey vs : vals (nokey vs) = vs.
Proof. unfold vals, nokey. rewrite map_map. simpl. apply map_id. Qed.

Lemma length_nokey vs : length (nokey vs) = length vs.
Proof. unfold nokey. apply map_length. Qed.

Lemma length_vals (t : tab) : length (vals t) = length t.
Proof. unfold vals. apply map_length. Qed.

Lemma length_pairs (t : tab) : length (pairs t) = length t.
Proof. unfold pairs. apply map_length. Qed.

Lemma vals_cons k v (t : tab) : vals ((k, v) :: t) = v :: vals t.
Proof. reflexivity. Qed.

Lemma pairs_cons k v (t : tab) : pairs ((k, v) :: t) = pair_of k v :: pairs t.
Proof. reflexivity. Qed.

(* ---------- bind ---------- *)
Lemma bind_Ok_r {A} (r : res A) : bind r Ok = r.
Proof. destruct r; reflexivity. Qed.

Lemma bind_Ok_inv {A B} (r : res A) (f : A -> res B) b :
  bind r f = Ok b -> exists a, r = Ok a /\ f a = Ok b.
Proof. destruct r; simpl; intros H; [eauto | discriminate]. Qed.

(* ---------- inb / nodupb ---------- *)
Lemma inb_In k ks : inb k ks = true <-> In k ks.
Proof.
  unfold inb. rewrite existsb_exists. split.
  - intros [x [H1 H2]]. apply String.eqb_eq in H2. subst. exact H1.
  - intros H. exists k. split; [exact H | apply String.eqb_refl].
Qed.

Lemma inb_false_not_In k ks : inb k ks = false <-> ~ In k ks.
Proof.
  rewrite <- inb_In. destruct (inb k ks); split; intros; congruence.
Qed.

Lemma nodupb_NoDup ks : nodupb ks = true <-> NoDup ks.
Proof.
  induction ks as [|a ks IH]; simpl.
  - split; intros; [constructor | reflexivity].
  - rewrite andb_true_iff, negb_true_iff. split.
    + intros [H1 H2]. constructor.
      * apply inb_false_not_In. exact H1.
      * apply IH. exact H2.
    + intros H. inversion H; subst. split.
      * apply inb_false_not_In. assumption.
      * apply IH. assumption.
Qed.

(* ---------- functional / assoc / lookup ---------- *)
Lemma NoDup_fst_functional (t : tab) : NoDup (map fst t) -> functional t.
Proof.
  induction t as [|[k0 v0] t IH]; intros H k v v' H1 H2.
  - destruct H1.
  - simpl in H. inversion H as [|x l Hnin Hnd]; subst.
    destruct H1 as [H1|H1], H2 as [H2|H2].
    + congruence.
    + inversion H1; subst. exfalso. apply Hnin.
      apply (in_map fst) in H2. exact H2.
    + inversion H2; subst. exfalso. apply Hnin.
      apply (in_map fst) in H1. exact H1.
    + exact (IH Hnd k v v' H1 H2).
Qed.

Lemma nodupb_functional (t : tab) : nodupb (map fst t) = true -> functional t.
Proof. intros H. apply NoDup_fst_functional, nodupb_NoDup, H. Qed.

Lemma functional_nil : functional [].
Proof. intros k v v' []. Qed.

Lemma functional_tail kv (t : tab) : functional (kv :: t) -> functional t.
Proof. intros H k v v' H1 H2. apply (H k); right; assumption. Qed.

Lemma lookup_assoc k (kvs : tab) :
  lookup k kvs = match assoc k kvs with Some v => Ok v | None => Err (lib EKey) end.
Proof. unfold lookup, assoc. destruct (find (fun kv => String.eqb k (fst kv)) kvs); reflexivity. Qed.

Lemma assoc_cons k k0 v0 (t : tab) :
  assoc k ((k0, v0) :: t) = if String.eqb k k0 then Some v0 else assoc k t.
Proof. unfold assoc. simpl. destruct (String.eqb k k0); reflexivity. Qed.

Lemma assoc_Some_In k v (t : tab) : assoc k t = Some v -> In (k, v) t.
Proof.
  induction t as [|[k0 v0] t IH]; intros H.
  - discriminate.
  - rewrite assoc_cons in H. destruct (String.eqb k k0) eqn:E.
    + apply String.eqb_eq in E. inversion H; subst. left. reflexivity.
    + right. apply IH. exact H.
Qed.

Lemma assoc_None_not_In k (t : tab) : assoc k t = None <-> ~ In k (map fst t).
Proof.
  induction t as [|[k0 v0] t IH].
  - simpl. split; [intros _ [] | reflexivity].
  - rewrite assoc_cons. simpl. destruct (String.eqb k k0) eqn:E.
    + apply String.eqb_eq in E. subst. split; [discriminate | intros H; exfalso; apply H; left; reflexivity].
    + apply String.eqb_neq in E. rewrite IH. split.
      * intros H [H1|H1]; [congruence | exact (H H1)].
      * intros H H1. apply H. right. exact H1.
Qed.

Lemma In_functional_assoc k v (t : tab) : functional t -> In (k, v) t -> assoc k t = Some v.
Proof.
  intros Hf Hin. destruct (assoc k t) as [v'|] eqn:E.
  - apply assoc_Some_In in E. f_equal. exact (Hf k v' v E Hin).
  - exfalso. apply assoc_None_not_In in E. apply E. apply (in_map fst) in Hin. exact Hin.
Qed.

(* ---------- Forall2 ---------- *)
Lemma Forall2_len {A B} (R : A -> B -> Prop) l l' : Forall2 R l l' -> length l = length l'.
Proof. induction 1; simpl; congruence. Qed.

Lemma Forall2_In_r {A B} (R : A -> B -> Prop) l l' :
  Forall2 R l l' -> forall b, In b l' -> exists a, In a l /\ R a b.
Proof.
  induction 1 as [|a b0 l l' HR H IH]; intros b Hb.
  - destruct Hb.
  - destruct Hb as [Hb|Hb].
    + subst. exists a. split; [left; reflexivity | exact HR].
    + destruct (IH b Hb) as [a' [Ha' HR']]. exists a'. split; [right; exact Ha' | exact HR'].
Qed.

Lemma Forall2_In_l {A B} (R : A -> B -> Prop) l l' :
  Forall2 R l l' -> forall a, In a l -> exists b, In b l' /\ R a b.
Proof.
  induction 1 as [|a0 b l l' HR H IH]; intros a Ha.
  - destruct Ha.
  - destruct Ha as [Ha|Ha].
    + subst. exists b. split; [left; reflexivity | exact HR].
    + destruct (IH a Ha) as [b' [Hb' HR']]. exists b'. split; [right; exact Hb' | exact HR'].
Qed.

Lemma Forall2_nth_error {A B} (R : A -> B -> Prop) l l' :
  Forall2 R l l' -> forall n,
  match nth_error l n, nth_error l' n with
  | Some a, Some b => R a b
  | None, None => True
  | _, _ => False
  end.
Proof.
  induction 1 as [|a b l l' HR H IH]; intros [|n]; simpl; auto.
  apply IH.
Qed.

Lemma Forall2_map {A B A' B'} (R : A' -> B' -> Prop) (g : A -> A') (h : B -> B') l l' :
  Forall2 (fun a b => R (g a) (h b)) l l' -> Forall2 R (map g l) (map h l').
Proof. induction 1; simpl; constructor; auto. Qed.

(* ---------- py_nth ---------- *)
Lemma py_nth_Forall2 {A B} (R : A -> B -> Prop) l l' :
  Forall2 R l l' -> forall i,
  match py_nth l i, py_nth l' i with
  | Ok a, Ok b => R a b
  | Err e, Err e' => e = e'
  | _, _ => False
  end.
Proof.
  intros H i. unfold py_nth. cbv zeta.
  rewrite <- (Forall2_len _ _ _ H).
  destruct ((_ <? 0) || (_ <=? _)); [reflexivity|].
  pose proof (Forall2_nth_error R l l' H
                (Z.to_nat (if i <? 0 then i + Z.of_nat (length l) else i))) as Hn.
  destruct (nth_error l _); destruct (nth_error l' _); auto.
Qed.

Lemma py_nth_map {A B} (g : A -> B) l i :
  py_nth (map g l) i = bind (py_nth l i) (fun a => Ok (g a)).
Proof.
  unfold py_nth. cbv zeta. rewrite map_length.
  destruct ((_ <? 0) || (_ <=? _)); [reflexivity|].
  rewrite nth_error_map. destruct (nth_error l _); reflexivity.
Qed.

Lemma py_nth_Ok_In {A} (l : list A) i a : py_nth l i = Ok a -> In a l.
Proof.
  unfold py_nth. cbv zeta.
  destruct ((_ <? 0) || (_ <=? _)); [discriminate|].
  destruct (nth_error l _) eqn:E; [|discriminate].
  intros H. inversion H; subst. eapply nth_error_In; eauto.
Qed.

Lemma py_nth_nonneg {A} (l : list A) (j : nat) :
  py_nth l (Z.of_nat j) =
  match nth_error l j with Some a => Ok a | None => Err (lib EIndex) end.
Proof.
  unfold py_nth. cbv zeta.
  assert (Z.of_nat j <? 0 = false) as -> by lia.
  rewrite Nat2Z.id.
  destruct (nth_error l j) eqn:E.
  - assert (j < length l)%nat by (apply nth_error_Some; congruence).
    assert ((Z.of_nat j <? 0) || (Z.of_nat (length l) <=? Z.of_nat j) = false) as -> by lia.
    reflexivity.
  - destruct ((_ <? 0) || (_ <=? _)); reflexivity.
Qed.

(* py_nth either succeeds or raises the library IndexError *)
Lemma py_nth_Err {A} (l : list A) i e : py_nth l i = Err e -> e = lib EIndex.
Proof.
  unfold py_nth. cbv zeta.
  destruct ((_ <? 0) || (_ <=? _)); [congruence|].
  destruct (nth_error l _); congruence.
Qed.

(* ---------- omapM ---------- *)
Lemma omapM_Forall2 {A B} (f : A -> option B) l r :
  omapM f l = Some r <-> Forall2 (fun a b => f a = Some b) l r.
Proof.
  revert r. induction l as [|a l IH]; intros r; simpl.
  - split.
    + intros H. inversion H. constructor.
    + intros H. inversion H. reflexivity.
  - split.
    + destruct (f a) as [b|] eqn:E; simpl; [|discriminate].
      destruct (omapM f l) as [r'|] eqn:E'; simpl; [|discriminate].
      intros H. inversion H; subst. constructor; [exact E | apply IH; reflexivity].
    + intros H. inversion H as [|a' b l0 r' Hab Hr]; subst.
      rewrite Hab. simpl. apply IH in Hr. rewrite Hr. reflexivity.
Qed.

Lemma omapM_length {A B} (f : A -> option B) l r : omapM f l = Some r -> length r = length l.
Proof. intros H. apply omapM_Forall2 in H. symmetry. exact (Forall2_len _ _ _ H). Qed.

(* ---------- then_end / tmap / parmap_trace on a complete source ---------- *)
Lemma then_end_End l e : then_end (l, End) e = (l, e).
Proof. reflexivity. Qed.

Lemma tmap_End f l : tmap f (l, End) = then_end (map_until f l) End.
Proof. reflexivity. Qed.

Lemma then_end_End_End (t : trace) : then_end t End = t.
Proof. destruct t as [l [|x]]; reflexivity. Qed.

Lemma parmap_trace_End f b l : parmap_trace f b (l, End) = map_until f l.
Proof. reflexivity. Qed.

(* ---------- map_rows: the row relation it establishes ---------- *)
Definition row_rel (f : val -> res val) (kv kw : key * val) : Prop :=
  fst kw = fst kv /\ f (snd kv) = Ok (snd kw).

Lemma map_rows_rel f t0 t : map_rows f t0 = Some t -> Forall2 (row_rel f) t0 t.
Proof.
  unfold map_rows. intros H. apply omapM_Forall2 in H.
  induction H as [|[k v] [k' w] l l' HR H IH]; constructor; auto.
  simpl in HR. destruct (f v) eqn:E; [|discriminate].
  inversion HR; subst. split; simpl; auto.
Qed.

Lemma rel_map_rows f t0 t : Forall2 (row_rel f) t0 t -> map_rows f t0 = Some t.
Proof.
  unfold map_rows. intros H. apply omapM_Forall2.
  induction H as [|[k v] [k' w] l l' [Hk Hf] H IH]; constructor; auto.
  simpl in *. rewrite Hf. subst. reflexivity.
Qed.

Lemma rel_length f t0 t (H : Forall2 (row_rel f) t0 t) : length t = length t0.
Proof. symmetry. exact (Forall2_len _ _ _ H). Qed.

Lemma rel_keys f t0 t (H : Forall2 (row_rel f) t0 t) : map fst t = map fst t0.
Proof.
  induction H as [|kv kw l l' [Hk _] _ IH]; simpl; [reflexivity|].
  rewrite Hk, IH. reflexivity.
Qed.

Lemma rel_vals f t0 t (H : Forall2 (row_rel f) t0 t) :
  Forall2 (fun v w => f v = Ok w) (vals t0) (vals t).
Proof.
  unfold vals. apply Forall2_map.
  induction H as [|kv kw l l' [_ Hf] _ IH]; constructor; auto.
Qed.

Lemma rel_map_until f t0 t (H : Forall2 (row_rel f) t0 t) :
  map_until f (vals t0) = (vals t, End).
Proof.
  induction H as [|[k v] [k' w] l l' [_ Hf] _ IH]; simpl in *; [reflexivity|].
  rewrite Hf, IH. reflexivity.
Qed.

Lemma rel_map_until_pairs f t0 t (H : Forall2 (row_rel f) t0 t) :
  map_until (pair_snd_map f) (pairs t0) = (pairs t, End).
Proof.
  induction H as [|[k v] [k' w] l l' [Hk Hf] _ IH]; simpl in *; [reflexivity|].
  rewrite Hf. simpl. rewrite IH. subst. reflexivity.
Qed.

Lemma rel_py_nth f t0 t (H : Forall2 (row_rel f) t0 t) i :
  bind (py_nth (vals t0) i) f = py_nth (vals t) i.
Proof.
  pose proof (py_nth_Forall2 _ _ _ (rel_vals f t0 t H) i) as Hn.
  destruct (py_nth (vals t0) i) as [v|e]; destruct (py_nth (vals t) i) as [w|e'];
    simpl; try contradiction; congruence.
Qed.

Lemma rel_assoc f t0 t (H : Forall2 (row_rel f) t0 t) k :
  match assoc k t0 with
  | Some v => exists w, f v = Ok w /\ assoc k t = Some w
  | None => assoc k t = None
  end.
Proof.
  induction H as [|[k0 v0] [k1 v1] l l' [Hk Hf] _ IH]; simpl in *.
  - reflexivity.
  - subst. rewrite !assoc_cons. destruct (String.eqb k k0).
    + exists v1. split; auto.
    + exact IH.
Qed.

Lemma rel_functional f t0 t (H : Forall2 (row_rel f) t0 t) : functional t0 -> functional t.
Proof.
  intros Hfun k w w' H1 H2.
  destruct (Forall2_In_r _ _ _ H _ H1) as [[k1 v1] [Hin1 [Hk1 Hf1]]].
  destruct (Forall2_In_r _ _ _ H _ H2) as [[k2 v2] [Hin2 [Hk2 Hf2]]].
  simpl in *. subst.
  assert (v1 = v2) by (eapply Hfun; eauto). subst. congruence.
Qed.

(* ---------- filter_rows vs. filter_until ---------- *)
Lemma filter_until_rows p t0 t :
  filter_rows p t0 = Some t -> filter_until p Ok (vals t0) = (vals t, End).
Proof.
  revert t. induction t0 as [|[k v] t0 IH]; intros t H; simpl in *.
  - inversion H. reflexivity.
  - destruct (p v) as [[|]|e]; try discriminate.
    + destruct (filter_rows p t0) as [r|]; simpl in H; try discriminate.
      inversion H; subst. fold (vals t0). rewrite (IH r eq_refl). reflexivity.
    + apply IH. exact H.
Qed.

Lemma filter_until_rows_pairs p t0 t :
  filter_rows p t0 = Some t -> filter_until p snd_of_pair (pairs t0) = (pairs t, End).
Proof.
  revert t. induction t0 as [|[k v] t0 IH]; intros t H; simpl in *.
  - inversion H. reflexivity.
  - destruct (p v) as [[|]|e]; try discriminate.
    + destruct (filter_rows p t0) as [r|]; simpl in H; try discriminate.
      inversion H; subst. fold (pairs t0). rewrite (IH r eq_refl). reflexivity.
    + apply IH. exact H.
Qed.

(* ====================================================================== *)
(* Stage lemmas                                                            *)
(* ====================================================================== *)

Lemma agrees_listlike d vs :
  iter_ false d = (vs, End) -> keyedb d = false -> len_ d = Ok (length vs) ->
  (forall i, get_i d i = py_nth vs i) -> (forall ks, keys_ d <> Ok ks) ->
  agrees d (nokey vs).
Proof.
  intros Hit Hk Hl Hg Hks. constructor.
  - rewrite vals_nokey. exact Hit.
  - rewrite Hk. discriminate.
  - intros m Hm. rewrite Hl in Hm. inversion Hm. rewrite length_nokey. reflexivity.
  - intros _ _. rewrite length_nokey, vals_nokey. split; [exact Hl | exact Hg].
  - intros ks Hks'. exfalso. exact (Hks ks Hks').
  - intros ks Hks'. exfalso. exact (Hks ks Hks').
Qed.

Lemma stage_list vs : stage_ok (DList vs).
Proof.
  intros _ t Ht. simpl in Ht. inversion Ht; subst.
  apply agrees_listlike; try reflexivity. intros ks; simpl; discriminate.
Qed.

Lemma stage_listwu vs : stage_ok (DListWu vs).
Proof.
  intros _ t Ht. simpl in Ht. inversion Ht; subst.
  apply agrees_listlike; try reflexivity. intros ks; simpl; discriminate.
Qed.

Lemma stage_dict kvs : stage_ok (DDict kvs).
Proof.
  intros Hwf t Ht. simpl in Hwf, Ht. inversion Ht; subst. constructor.
  - reflexivity.
  - intros _. reflexivity.
  - simpl. intros m Hm. inversion Hm. reflexivity.
  - intros _ _. simpl. split; reflexivity.
  - simpl. intros ks Hks. inversion Hks; subst.
    repeat split; auto. apply nodupb_functional. exact Hwf.
  - intros ks _ k. simpl. rewrite lookup_assoc.
    destruct (assoc k t); [reflexivity | eexists; reflexivity].
Qed.

(* common core of DMap and DParMap *)
Lemma agrees_maplike f d d' t0 t :
  agrees d t0 -> Forall2 (row_rel f) t0 t ->
  (iter_ false d = (vals t0, End) -> iter_ false d' = map_until f (vals t0)) ->
  (iter_ true d = (pairs t0, End) -> iter_ true d' = map_until (pair_snd_map f) (pairs t0)) ->
  keyedb d' = keyedb d -> len_ d' = len_ d -> indexable d' = indexable d ->
  ikeyed d' = ikeyed d -> keys_ d' = keys_ d ->
  (forall i, get_i d' i = bind (get_i d i) f) ->
  (forall k, get_k d' k = bind (get_k d k) f) ->
  agrees d' t.
Proof.
  intros [Ait Aitk Alen Aidx Akeys Agetk] HR Hit Hitk Hkb Hlen Hix Hik Hks Hgi Hgk.
  constructor.
  - rewrite (Hit Ait). apply rel_map_until. exact HR.
  - rewrite Hkb. intros Hk. rewrite (Hitk (Aitk Hk)). apply rel_map_until_pairs. exact HR.
  - rewrite Hlen. intros m Hm. rewrite (rel_length f t0 t HR). apply Alen. exact Hm.
  - rewrite Hix, Hik, Hlen. intros H1 H2. destruct (Aidx H1 H2) as [Hl Hg].
    rewrite (rel_length f t0 t HR). split; [exact Hl|].
    intros i. rewrite Hgi, Hg. apply rel_py_nth. exact HR.
  - rewrite Hks, Hkb, Hix, Hik. intros ks Hk.
    destruct (Akeys ks Hk) as (K1 & K2 & K3 & K4 & K5).
    repeat split; auto.
    + rewrite (rel_keys f t0 t HR). exact K2.
    + exact (rel_functional f t0 t HR K3).
  - rewrite Hks. intros ks Hk k. specialize (Agetk ks Hk k).
    pose proof (rel_assoc f t0 t HR k) as Ha. rewrite Hgk.
    destruct (assoc k t0) as [v|].
    + destruct Ha as [w [Hf Hw]]. rewrite Hw, Agetk. simpl. exact Hf.
    + rewrite Ha. destruct Agetk as [e He]. exists e. rewrite He. reflexivity.
Qed.

Lemma stage_map f d : stage_ok d -> stage_ok (DMap f d).
Proof.
  intros IH Hwf t Ht. simpl in Hwf, Ht.
  destruct (tbl d) as [t0|] eqn:E; simpl in Ht; [|discriminate].
  specialize (IH Hwf t0 E). apply map_rows_rel in Ht.
  apply (agrees_maplike f d (DMap f d) t0 t IH Ht); try reflexivity.
  - intros Hi. simpl. rewrite Hi, tmap_End. apply then_end_End_End.
  - intros Hi. simpl. rewrite Hi, tmap_End. apply then_end_End_End.
Qed.

Lemma stage_parmap f w b d : stage_ok d -> stage_ok (DParMap f w b d).
Proof.
  intros IH Hwf t Ht. simpl in Hwf, Ht.
  destruct (tbl d) as [t0|] eqn:E; simpl in Ht; [|discriminate].
  specialize (IH Hwf t0 E). apply map_rows_rel in Ht.
  apply (agrees_maplike f d (DParMap f w b d) t0 t IH Ht); try reflexivity.
  - intros Hi. simpl. rewrite Hi. apply parmap_trace_End.
  - intros Hi. simpl. rewrite Hi. apply parmap_trace_End.
Qed.

Lemma stage_filter p d : stage_ok d -> stage_ok (DFilter p d).
Proof.
  intros IH Hwf t Ht. simpl in Hwf, Ht.
  destruct (tbl d) as [t0|] eqn:E; simpl in Ht; [|discriminate].
  specialize (IH Hwf t0 E). destruct IH as [Ait Aitk _ _ _ _].
  constructor.
  - simpl. rewrite Ait. simpl. rewrite (filter_until_rows p t0 t Ht). reflexivity.
  - simpl. intros Hk. rewrite (Aitk Hk). simpl.
    rewrite (filter_until_rows_pairs p t0 t Ht). reflexivity.
  - simpl. discriminate.
  - simpl. discriminate.
  - simpl. discriminate.
  - simpl. discriminate.
Qed.

Lemma stage_cycle d : stage_ok (DCycle d).
Proof. intros _ t Ht. simpl in Ht. discriminate. Qed.
