(* Isolation.v - Model H: examples handed out are isolated from the stored data.
   Objects have identity (an address into a heap of current contents).  Storage keeps, per example, either an
   immutable blob (pickle / wu modes, memory cache, disk cache) or a REFERENCE to the caller's original object
   (copy mode: serialize = identity, deserialize = deepcopy on every read).  Every read allocates a fresh object. *)
From Coq Require Import List Arith Bool Lia.
Import ListNotations.

Section Iso.
  Variable V : Type.                         (* the (deep) content of an example *)
  Inductive slot := SBlob (v : V) | SRef (a : nat).
  Record istate := mkI { heap : list V; storage : list slot; norig : nat }.   (* addresses < norig are the caller's originals *)

  Inductive mode := Pickle | Wu | Copy.
  (* new(examples, immutable_warranty=mode): the originals live at addresses 0..n-1 *)
  Definition iinit (m : mode) (examples : list V) : istate :=
    mkI examples
        (match m with
         | Copy => map SRef (seq 0 (length examples))
         | _ => map SBlob examples
         end) (length examples).

  Inductive iop :=
  | IRead (i : nat)                  (* any access path: index, key, slice, iteration, items, through a copy *)
  | IMutate (h : nat) (v : V)        (* in-place mutation of the object behind a handle *)
  | IMutateOriginal (j : nat) (v : V).  (* the caller mutates the j-th object of the original container *)
  Inductive iout := IVal (h : nat) (v : V) | INone.

  Fixpoint set_nth (l : list V) (i : nat) (a : V) : list V :=
    match l, i with [], _ => [] | _ :: r, O => a :: r | x :: r, S i' => x :: set_nth r i' a end.

  Definition istep (s : istate) (o : iop) : istate * iout :=
    match o with
    | IRead i =>
        match nth_error (storage s) i with
        | Some (SBlob v) => (mkI (heap s ++ [v]) (storage s) (norig s), IVal (length (heap s)) v)
        | Some (SRef a) => match nth_error (heap s) a with
                           | Some v => (mkI (heap s ++ [v]) (storage s) (norig s), IVal (length (heap s)) v)   (* deepcopy *)
                           | None => (s, INone)
                           end
        | None => (s, INone)
        end
    | IMutate h v => if h <? length (heap s) then (mkI (set_nth (heap s) h v) (storage s) (norig s), INone) else (s, INone)
    | IMutateOriginal j v => if j <? norig s then (mkI (set_nth (heap s) j v) (storage s) (norig s), INone) else (s, INone)
    end.
  Fixpoint irun (s : istate) (ops : list iop) : istate * list iout :=
    match ops with
    | [] => (s, [])
    | o :: r => let '(s1, x) := istep s o in let '(s2, xs) := irun s1 r in (s2, x :: xs)
    end.

  (* the history only mutates objects it obtained from the dataset (handles >= norig) ... *)
  Definition user_only (s : istate) (o : iop) : Prop :=
    match o with IMutate h _ => norig s <= h | IMutateOriginal _ _ => False | IRead _ => True end.
  (* ... or, for the serialising modes, also the original container *)
  Definition user_or_original (s : istate) (o : iop) : Prop :=
    match o with IMutate h _ => norig s <= h | _ => True end.

  Definition reads_pristine (pristine : list V) (ops : list iop) (outs : list iout) : Prop :=
    Forall2 (fun o x => match o, x with
                        | IRead i, IVal _ v => nth_error pristine i = Some v
                        | IRead i, INone => nth_error pristine i = None
                        | _, _ => True
                        end) ops outs.

  (* ---- proofs ---- *)
  Lemma set_nth_length l i a : length (set_nth l i a) = length l.
  Proof. revert i; induction l as [|x l IH]; intros [|i]; simpl; auto. Qed.
  Lemma set_nth_other l i j a : i <> j -> nth_error (set_nth l i a) j = nth_error l j.
  Proof. revert i j; induction l as [|x l IH]; intros [|i] [|j] H; simpl; auto; try congruence. Qed.

  (* invariant: a slot is a blob of the pristine content, or a reference to an ORIGINAL whose content is pristine *)
  Definition IInv (pristine : list V) (s : istate) : Prop :=
    norig s <= length (heap s) /\
    length (storage s) = length pristine /\
    forall i sl, nth_error (storage s) i = Some sl ->
      match sl with
      | SBlob v => nth_error pristine i = Some v
      | SRef a => a < norig s /\ nth_error (heap s) a = nth_error pristine i
      end.

  Lemma iinv_step pristine s o : IInv pristine s -> user_only s o ->
    IInv pristine (fst (istep s o)) /\ norig (fst (istep s o)) = norig s /\
    match o, snd (istep s o) with
    | IRead i, IVal h v => nth_error pristine i = Some v /\ norig s <= h
    | IRead i, INone => nth_error pristine i = None
    | _, _ => True
    end.
  Proof.
    intros (Hn & Hl & Hs) Hu. destruct o as [i|h v|j v].
    - destruct (nth_error (storage s) i) as [[v|a]|] eqn:E.
      + pose proof (Hs _ _ E) as P. unfold istep. rewrite E. cbn.
        split; [|split; [reflexivity|split; [exact P|lia]]].
        unfold IInv; cbn. split; [rewrite app_length; cbn; lia|]. split; [exact Hl|].
        intros i' sl' E'. specialize (Hs _ _ E'). destruct sl' as [v'|a']; [exact Hs|].
        destruct Hs as [Ha Hv]. split; [exact Ha|]. rewrite nth_error_app1 by lia. exact Hv.
      + destruct (Hs _ _ E) as [Ha Hv]. destruct (nth_error (heap s) a) as [v|] eqn:E2.
        * unfold istep. rewrite E, E2. cbn. split; [|split; [reflexivity|split; [congruence|lia]]].
          unfold IInv; cbn. split; [rewrite app_length; cbn; lia|]. split; [exact Hl|].
          intros i' sl' E'. specialize (Hs _ _ E'). destruct sl' as [v'|a']; [exact Hs|].
          destruct Hs as [Ha' Hv']. split; [exact Ha'|]. rewrite nth_error_app1 by lia. exact Hv'.
        * unfold istep. rewrite E, E2. cbn. split; [unfold IInv; auto|]. split; [reflexivity|congruence].
      + unfold istep. rewrite E. cbn. split; [unfold IInv; auto|]. split; [reflexivity|].
        apply nth_error_None in E. apply nth_error_None. lia.
    - cbn in Hu. unfold istep. destruct (h <? length (heap s)) eqn:Eh; cbn.
      + split; [|split; [reflexivity|exact I]]. unfold IInv; cbn. split; [rewrite set_nth_length; exact Hn|].
        split; [exact Hl|]. intros i' sl' E'. specialize (Hs _ _ E'). destruct sl' as [v'|a']; [exact Hs|].
        destruct Hs as [Ha' Hv']. split; [exact Ha'|]. rewrite set_nth_other by lia. exact Hv'.
      + split; [unfold IInv; auto|]. split; [reflexivity|exact I].
    - cbn in Hu. contradiction.
  Qed.

  (* C09, first sentence: whatever is done to objects obtained from the dataset, every later access by any path
     returns the pristine content *)
  Theorem isolation pristine : forall ops s,
    IInv pristine s ->
    (forall k o, nth_error ops k = Some o -> forall s', s' = fst (irun s (firstn k ops)) -> user_only s' o) ->
    reads_pristine pristine ops (snd (irun s ops)).
  Proof.
    induction ops as [|o ops IH]; intros s HI HU; simpl.
    - constructor.
    - assert (Hu : user_only s o) by (apply (HU 0%nat o eq_refl s); reflexivity).
      pose proof (iinv_step pristine s o HI Hu) as Q.
      destruct (istep s o) as [s1 x] eqn:E1. cbn [fst snd] in Q. destruct Q as (HI' & Hno & Hout).
      destruct (irun s1 ops) as [s2 xs] eqn:E2. cbn [snd].
      constructor.
      + destruct o as [i|h v|j v]; auto; rewrite ?E1 in Hout; cbn [snd] in Hout. destruct x as [h v|]; [exact (proj1 Hout)|exact Hout].
      + replace xs with (snd (irun s1 ops)) by (rewrite E2; reflexivity).
        apply IH; auto. intros k o' Hk s' Hs'.
        apply (HU (S k) o' Hk s'). cbn [firstn irun]. rewrite E1. destruct (irun s1 (firstn k ops)) eqn:E3.
        cbn [fst]. subst s'. reflexivity.
  Qed.

  Lemma nth_error_seq0 n i a : nth_error (seq 0 n) i = Some a -> a = i /\ i < n.
  Proof.
    intros H. assert (Hi : i < n) by (rewrite <- (seq_length n 0); apply nth_error_Some; congruence).
    split; [|exact Hi]. apply (nth_error_nth _ _ 0) in H. rewrite seq_nth in H by exact Hi. lia.
  Qed.

  Lemma iinit_inv m examples : IInv examples (iinit m examples).
  Proof.
    unfold IInv, iinit. cbn. split; [lia|]. split.
    - destruct m; rewrite map_length; try reflexivity. apply seq_length.
    - intros i sl E. destruct m.
      + rewrite nth_error_map in E. destruct (nth_error examples i); inversion E; subst; reflexivity.
      + rewrite nth_error_map in E. destruct (nth_error examples i); inversion E; subst; reflexivity.
      + rewrite nth_error_map in E. destruct (nth_error (seq 0 (length examples)) i) as [a|] eqn:E2; inversion E; subst.
        destruct (nth_error_seq0 _ _ _ E2) as [-> Hi]. split; [exact Hi|reflexivity].
  Qed.

  (* serialising modes: no slot is a reference, so mutating the original container has no effect either *)
  Definition BlobInv (pristine : list V) (s : istate) : Prop :=
    length (storage s) = length pristine /\
    forall i sl, nth_error (storage s) i = Some sl -> exists v, sl = SBlob v /\ nth_error pristine i = Some v.

  Lemma blob_step pristine s o : BlobInv pristine s ->
    BlobInv pristine (fst (istep s o)) /\
    match o, snd (istep s o) with
    | IRead i, IVal h v => nth_error pristine i = Some v
    | IRead i, INone => nth_error pristine i = None
    | _, _ => True
    end.
  Proof.
    intros (Hl & Hs). destruct o as [i|h v|j v]; simpl.
    - destruct (nth_error (storage s) i) as [sl|] eqn:E.
      + destruct (Hs _ _ E) as (v & -> & Hv). simpl. split; [split; auto|exact Hv].
      + simpl. split; [split; auto|]. apply nth_error_None in E. apply nth_error_None. lia.
    - destruct (h <? length (heap s)); simpl; split; auto; split; auto.
    - destruct (j <? norig s); simpl; split; auto; split; auto.
  Qed.

  (* C09, second sentence: for pickle / wu (and the caches) ANY history - including mutation of the original
     container after construction - leaves every read pristine *)
  Theorem isolation_serialising pristine : forall ops s,
    BlobInv pristine s -> reads_pristine pristine ops (snd (irun s ops)).
  Proof.
    induction ops as [|o ops IH]; intros s HB; simpl.
    - constructor.
    - pose proof (blob_step pristine s o HB) as Q.
      destruct (istep s o) as [s1 x] eqn:E1. cbn [fst snd] in Q. destruct Q as (HB' & Hout).
      destruct (irun s1 ops) as [s2 xs] eqn:E2. cbn [snd]. constructor.
      + destruct o as [i|h v|j v]; auto; rewrite ?E1 in Hout; cbn [snd] in Hout. destruct x as [h v|]; exact Hout.
      + replace xs with (snd (irun s1 ops)) by (rewrite E2; reflexivity). apply IH; auto.
  Qed.

  Lemma iinit_blob m examples : m <> Copy -> BlobInv examples (iinit m examples).
  Proof.
    intros Hm. unfold BlobInv, iinit. destruct m; try congruence; simpl; split; try apply map_length;
      intros i sl E; rewrite nth_error_map in E; destruct (nth_error examples i) eqn:E2; simpl in E; inversion E; subst; eauto.
  Qed.
End Iso.


(* ---- a cache over an upstream that hands out SHARED objects (e.g. a raw ListDataset, or map(lambda k: table[k])):
   the first access computes the example = the upstream's own object, stores a pickled blob and returns that very
   object; from then on the example is served from the blob, so it is frozen whatever is mutated afterwards ---- *)
Section LazyCache.
  Variable V : Type.
  Inductive lslot := LBlob (v : V) | LLazy (a : nat).          (* cached blob | not yet cached: upstream object at a *)
  Record lstate := mkL { lheap : list V; lstorage : list lslot }.
  Definition linit (upstream : list V) : lstate := mkL upstream (map LLazy (seq 0 (length upstream))).
  Inductive lop := LRead (i : nat) | LMutate (h : nat) (v : V).   (* h may be ANY object, upstream's included *)
  Inductive lout := LVal (h : nat) (v : V) | LNone.
  Fixpoint lset {A} (l : list A) (i : nat) (a : A) : list A :=
    match l, i with [], _ => [] | _ :: r, O => a :: r | x :: r, S i' => x :: lset r i' a end.
  Definition lstep (s : lstate) (o : lop) : lstate * lout :=
    match o with
    | LRead i =>
        match nth_error (lstorage s) i with
        | Some (LBlob v) => (mkL (lheap s ++ [v]) (lstorage s), LVal (length (lheap s)) v)        (* pickle.loads: fresh object *)
        | Some (LLazy a) => match nth_error (lheap s) a with
                            | Some v => (mkL (lheap s) (lset (lstorage s) i (LBlob v)), LVal a v)   (* returns the computed object itself *)
                            | None => (s, LNone)
                            end
        | None => (s, LNone)
        end
    | LMutate h v => (mkL (lset (lheap s) h v) (lstorage s), LNone)
    end.
  Fixpoint lrun (s : lstate) (ops : list lop) : lstate * list lout :=
    match ops with [] => (s, []) | o :: r => let '(s1, x) := lstep s o in let '(s2, xs) := lrun s1 r in (s2, x :: xs) end.

  Lemma lset_length {A} (l : list A) i a : length (lset l i a) = length l.
  Proof. revert i; induction l as [|x l IH]; intros [|i]; simpl; auto. Qed.
  Lemma lset_same {A} (l : list A) i a : i < length l -> nth_error (lset l i a) i = Some a.
  Proof. revert i; induction l as [|x l IH]; intros [|i] H; simpl in *; try lia; auto. apply IH. lia. Qed.
  Lemma lset_other {A} (l : list A) i j a : i <> j -> nth_error (lset l i a) j = nth_error l j.
  Proof. revert i j; induction l as [|x l IH]; intros [|i] [|j] H; simpl; auto; congruence. Qed.

  Definition frozen (s : lstate) (i : nat) (v : V) : Prop := nth_error (lstorage s) i = Some (LBlob v).

  Lemma frozen_step s o i v : frozen s i v -> frozen (fst (lstep s o)) i v.
  Proof.
    unfold frozen. intros H. destruct o as [j|h w]; simpl.
    - destruct (nth_error (lstorage s) j) as [[w|a]|] eqn:E; simpl; auto.
      destruct (nth_error (lheap s) a) as [w|] eqn:E2; simpl; auto.
      destruct (Nat.eq_dec j i) as [->|N]; [congruence|]. rewrite lset_other by exact N. exact H.
    - exact H.
  Qed.
  Lemma frozen_run ops : forall s i v, frozen s i v -> frozen (fst (lrun s ops)) i v.
  Proof.
    induction ops as [|o ops IH]; intros s i v H; simpl; auto.
    pose proof (frozen_step s o i v H) as H1. destruct (lstep s o) as [s1 x]. simpl in H1.
    specialize (IH s1 i v H1). destruct (lrun s1 ops) as [s2 xs]. exact IH.
  Qed.
  (* the first access freezes the example ... *)
  Theorem first_access_freezes s i h v : lstep s (LRead i) = (fst (lstep s (LRead i)), LVal h v) -> frozen (fst (lstep s (LRead i))) i v.
  Proof.
    unfold frozen. simpl. destruct (nth_error (lstorage s) i) as [[w|a]|] eqn:E; simpl.
    - intros H. inversion H; subst. exact E.
    - destruct (nth_error (lheap s) a) as [w|] eqn:E2; simpl; intros H; inversion H; subst.
      apply lset_same. apply nth_error_Some. congruence.
    - intros H; inversion H.
  Qed.
  (* ... and a frozen example is served unchanged after ANY history of reads and mutations of ANY object *)
  Theorem frozen_reads s ops i v : frozen s i v -> exists h, snd (lstep (fst (lrun s ops)) (LRead i)) = LVal h v.
  Proof.
    intros H. pose proof (frozen_run ops s i v H) as F. unfold frozen in F. simpl. rewrite F. simpl. eauto.
  Qed.
End LazyCache.

(* copy mode does depend on the original container (documented): a witness *)
Example copy_mode_sees_original_mutation :
  snd (irun nat (iinit nat Copy [10; 20]) [IMutateOriginal nat 0 99; IRead nat 0]) = [INone nat; IVal nat 2 99].
Proof. reflexivity. Qed.
Example pickle_mode_ignores_original_mutation :
  snd (irun nat (iinit nat Pickle [10; 20]) [IMutateOriginal nat 0 99; IRead nat 0; IMutate nat 2 7; IRead nat 0])
  = [INone nat; IVal nat 2 10; INone nat; IVal nat 3 10].
Proof. reflexivity. Qed.
