From Coq Require Import List Arith Bool Lia.
Require Import LD.Base LD.Trace LD.TraceTie LD.TraceProofs LD.TraceKey.
Import ListNotations.
Local Open Scope nat_scope.
From Coq Require Import ZArith.   (* only for the %Z literals of the examples *)

(* TraceKeyProofs.v - proofs about keyed access (TraceKey.v): which user functions one keyed lookup runs, that it
   returns an example of the dataset, and that it agrees with positional access through the key view.
   Standard library only; no axioms. *)

Definition events_of (r : kres) : list ev := match r with KVal e _ | KMiss e => e | KUnsup => [] end.

(* what LConcat / LSlice do to the result of the stage they forward to *)
Definition wrap (id : nat) (r : kres) : kres :=
  match r with KVal e v => KVal (e ++ [Fetch id]) v | KMiss e => KMiss (e ++ [Fail id]) | KUnsup => KUnsup end.

(* ------------------------------------------------------------------------------------------------ *)
(* small list facts *)

Lemma apps_app a b : apps (a ++ b) = apps a ++ apps b.
Proof. apply flat_map_app. Qed.

Lemma in_apps i a l : In (i, a) (apps l) -> In (App i a) l.
Proof.
  unfold apps. intros H. apply in_flat_map in H. destruct H as (x & Hx & Hi).
  destruct x as [j|j b|j]; simpl in Hi; try contradiction.
  destruct Hi as [Hi|[]]. inversion Hi; subst. exact Hx.
Qed.

Lemma NoDup_snoc {A} (l : list A) x : NoDup l -> ~ In x l -> NoDup (l ++ [x]).
Proof.
  induction l as [|y l IH]; simpl; intros N H.
  - constructor; [intros []|constructor].
  - inversion N as [|y' l' Hy N']; subst. constructor.
    + intros Hin. apply in_app_or in Hin. destruct Hin as [Hin|[Hin|[]]]; [auto|]. subst. apply H. left; reflexivity.
    + apply IH; auto.
Qed.

Lemma NoDup_app_l {A} (l m : list A) : NoDup (l ++ m) -> NoDup l.
Proof.
  induction l as [|y l IH]; simpl; intros N; [constructor|].
  inversion N as [|y' l' Hy N']; subst. constructor; auto. intros Hin. apply Hy, in_or_app. left; exact Hin.
Qed.

Lemma NoDup_app_r {A} (l m : list A) : NoDup (l ++ m) -> NoDup m.
Proof.
  induction l as [|y l IH]; simpl; intros N; auto. inversion N; auto.
Qed.

Lemma NoDup_app_disj {A} (l m : list A) x : NoDup (l ++ m) -> In x l -> In x m -> False.
Proof.
  induction l as [|y l IH]; simpl; intros N Hl Hm; [contradiction|].
  inversion N as [|y' l' Hy N']; subst. destruct Hl as [->|Hl].
  - apply Hy, in_or_app. right; exact Hm.
  - apply IH; auto.
Qed.

Lemma nth_error_same_len {A B} (L1 : list A) (L2 : list B) j :
  length L1 = length L2 -> (nth_error L1 j = None <-> nth_error L2 j = None).
Proof. intros L. rewrite !nth_error_None. lia. Qed.

(* selecting positions idx out of two lists of equal length: the selections line up *)
Lemma pick_length_both {A B} (L1 : list A) (L2 : list B) idx : length L1 = length L2 ->
  length (flat_map (fun j => match nth_error L1 j with Some v => [v] | None => [] end) idx) =
  length (flat_map (fun j => match nth_error L2 j with Some v => [v] | None => [] end) idx).
Proof.
  intros L. induction idx as [|j r IH]; simpl; auto.
  rewrite !app_length, IH. f_equal.
  pose proof (nth_error_same_len L1 L2 j L) as E.
  destruct (nth_error L1 j) as [x|], (nth_error L2 j) as [y|]; simpl; auto.
  - destruct E as [_ E]. specialize (E eq_refl). discriminate.
  - destruct E as [E _]. specialize (E eq_refl). discriminate.
Qed.

Lemma pick_nth_both {A B} (L1 : list A) (L2 : list B) idx : length L1 = length L2 ->
  forall i x,
  nth_error (flat_map (fun j => match nth_error L1 j with Some v => [v] | None => [] end) idx) i = Some x ->
  exists j, In j idx /\ nth_error L1 j = Some x /\
    (forall y, nth_error L2 j = Some y ->
       nth_error (flat_map (fun j => match nth_error L2 j with Some v => [v] | None => [] end) idx) i = Some y) /\
    (Forall (fun j => j < length L1) idx -> nth_error idx i = Some j).
Proof.
  intros L. induction idx as [|j r IH]; intros i x H; simpl in H.
  - destruct i; discriminate.
  - pose proof (nth_error_same_len L1 L2 j L) as E.
    destruct (nth_error L1 j) as [a|] eqn:E1.
    + destruct (nth_error L2 j) as [b|] eqn:E2.
      2:{ destruct E as [_ E]. specialize (E eq_refl). discriminate. }
      simpl in H. destruct i as [|i]; simpl in H.
      * inversion H; subst a. exists j. split; [left; reflexivity|]. split; [exact E1|]. split.
        -- intros y Hy. simpl. rewrite Hy. reflexivity.
        -- intros _. reflexivity.
      * destruct (IH i x H) as (j' & Hin & H1 & H2 & H3). exists j'. split; [right; exact Hin|]. split; [exact H1|]. split.
        -- intros y Hy. simpl. rewrite E2. simpl. apply H2; exact Hy.
        -- intros F. inversion F as [|j0 r0 Fj Fr]; subst. simpl. apply H3; exact Fr.
    + simpl in H. destruct E as [E _]. specialize (E eq_refl).
      destruct (IH i x H) as (j' & Hin & H1 & H2 & H3). exists j'. split; [right; exact Hin|]. split; [exact H1|]. split.
      * intros y Hy. simpl. rewrite E. simpl. apply H2; exact Hy.
      * intros F. inversion F as [|j0 r0 Fj Fr]; subst. apply nth_error_None in E1. lia.
Qed.

(* ------------------------------------------------------------------------------------------------ *)
(* keys *)

Lemma key_eqb_eq a b : key_eqb a b = true <-> a = b.
Proof.
  destruct a as [a1 a2], b as [b1 b2]. unfold key_eqb; simpl.
  rewrite andb_true_iff, !Nat.eqb_eq. split.
  - intros [-> ->]. reflexivity.
  - intros H. inversion H. auto.
Qed.

Lemma key_mem_In k l : key_mem k l = true <-> In k l.
Proof.
  unfold key_mem. rewrite existsb_exists. split.
  - intros (x & Hx & E). apply key_eqb_eq in E. subst. exact Hx.
  - intros H. exists k. split; [exact H|]. apply key_eqb_eq. reflexivity.
Qed.

(* keys only mention sources inside d *)
Lemma keys_fst_ids d : forall ks, keys_s d = Some ks -> forall k, In k ks -> In (fst k) (ids_of d).
Proof.
  induction d as [id vs|id f d IH|id p d IH|id n d IH|id d IH|id a IHa b IHb|id a IHa b IHb|id idx d IH];
    intros ks K k Hk; simpl in K; try discriminate.
  - injection K as K. subst ks. apply in_map_iff in Hk. destruct Hk as (i & Hi & _). subst k. simpl. left; reflexivity.
  - simpl. right. eapply IH; eauto.
  - destruct (keys_s a) as [ka|] eqn:Ka; [|discriminate]. destruct (keys_s b) as [kb|] eqn:Kb; [|discriminate].
    injection K as K. subst ks. simpl. right. apply in_or_app. apply in_app_or in Hk. destruct Hk as [Hk|Hk].
    + left. eapply IHa; eauto.
    + right. eapply IHb; eauto.
  - destruct (keys_s d) as [ks'|] eqn:K'; [|discriminate]. injection K as K. subst ks.
    apply in_flat_map in Hk. destruct Hk as (j & _ & Hin).
    destruct (nth_error ks' j) as [k'|] eqn:En; simpl in Hin; [|contradiction].
    destruct Hin as [Hin|[]]. subst k'. simpl. right. eapply IH; eauto. eapply nth_error_In; eauto.
Qed.

(* the key view has one key per example (no well-formedness needed) *)
Lemma keys_len d : forall ks, keys_s d = Some ks -> length ks = length (lref d).
Proof.
  induction d as [id vs|id f d IH|id p d IH|id n d IH|id d IH|id a IHa b IHb|id a IHa b IHb|id idx d IH];
    intros ks K; simpl in K; try discriminate.
  - injection K as K. subst ks. rewrite map_length, seq_length. reflexivity.
  - simpl. rewrite map_length. apply IH; exact K.
  - destruct (keys_s a) as [ka|] eqn:Ka; [|discriminate]. destruct (keys_s b) as [kb|] eqn:Kb; [|discriminate].
    injection K as K. subst ks. simpl. rewrite !app_length. rewrite (IHa ka eq_refl), (IHb kb eq_refl). reflexivity.
  - destruct (keys_s d) as [ks'|] eqn:K'; [|discriminate]. injection K as K. subst ks. simpl.
    apply pick_length_both. apply IH; reflexivity.
Qed.

Lemma keys_indexable d : forall ks, keys_s d = Some ks -> indexable_l d = true.
Proof.
  induction d as [id vs|id f d IH|id p d IH|id n d IH|id d IH|id a IHa b IHb|id a IHa b IHb|id idx d IH];
    intros ks K; simpl in K; try discriminate; simpl.
  - reflexivity.
  - eapply IH; eauto.
  - destruct (keys_s a) as [ka|] eqn:Ka; [|discriminate]. destruct (keys_s b) as [kb|] eqn:Kb; [|discriminate].
    rewrite (IHa ka eq_refl), (IHb kb eq_refl). reflexivity.
  - destruct (keys_s d) as [ks'|] eqn:K'; [|discriminate]. eapply IH; eauto.
Qed.

(* ------------------------------------------------------------------------------------------------ *)
(* unfolding equations *)

Lemma getk_concat id a b k ka kb : keys_s a = Some ka -> keys_s b = Some kb ->
  getk_s (LConcat id a b) k =
  if key_mem k ka then wrap id (getk_s a k) else if key_mem k kb then wrap id (getk_s b k) else KMiss [Fail id].
Proof. intros Ka Kb. simpl. rewrite Ka, Kb. reflexivity. Qed.

Lemma getk_concat_eq id a b k :
  getk_s (LConcat id a b) k =
  match keys_s a, keys_s b with
  | Some ka, Some kb =>
      if key_mem k ka then wrap id (getk_s a k) else if key_mem k kb then wrap id (getk_s b k) else KMiss [Fail id]
  | _, _ => KUnsup
  end.
Proof. reflexivity. Qed.

Lemma getk_slice_eq id idx d k :
  getk_s (LSlice id idx d) k =
  match keys_s (LSlice id idx d) with
  | Some ks => if key_mem k ks then wrap id (getk_s d k) else KMiss [Fail id]
  | None => KUnsup
  end.
Proof. reflexivity. Qed.

Lemma apps_wrap id r : apps (events_of (wrap id r)) = apps (events_of r).
Proof. destruct r as [e v|e|]; simpl; rewrite ?apps_app; simpl; rewrite ?app_nil_r; reflexivity. Qed.

(* ------------------------------------------------------------------------------------------------ *)
(* 1. every event of a keyed lookup belongs to a stage of the pipeline *)

Definition ids_in (ids : list nat) (l : list ev) : Prop := Forall (fun e => In (ev_id e) ids) l.

Lemma ids_in_incl A B l : incl A B -> ids_in A l -> ids_in B l.
Proof. intros I H. unfold ids_in in *. eapply Forall_impl; [|exact H]. intros e He. apply I; exact He. Qed.

Lemma ids_in_snoc ids l t : ids_in ids l -> ids_in ids t -> ids_in ids (l ++ t).
Proof. intros H1 H2. apply Forall_app; split; assumption. Qed.

Lemma ids_in_wrap ids id r : In id ids -> ids_in ids (events_of r) -> ids_in ids (events_of (wrap id r)).
Proof.
  intros Hid H. destruct r as [e v|e|]; simpl in *.
  - apply ids_in_snoc; [exact H|]. repeat constructor. exact Hid.
  - apply ids_in_snoc; [exact H|]. repeat constructor. exact Hid.
  - constructor.
Qed.

Lemma getk_events_ids d : forall k, ids_in (ids_of d) (events_of (getk_s d k)).
Proof.
  induction d as [id vs|id f d IH|id p d IH|id n d IH|id d IH|id a IHa b IHb|id a IHa b IHb|id idx d IH];
    intros k; try (simpl; constructor).
  - simpl. destruct (Nat.eqb (fst k) id); [destruct (nth_error vs (snd k))|]; simpl;
      repeat constructor; simpl; auto.
  - specialize (IH k). simpl. apply (ids_in_incl _ (id :: ids_of d)) in IH; [|intros x Hx; right; exact Hx].
    destruct (getk_s d k) as [e v|e|]; simpl in *.
    + apply ids_in_snoc; [exact IH|]. repeat constructor; simpl; auto.
    + apply ids_in_snoc; [exact IH|]. repeat constructor; simpl; auto.
    + constructor.
  - specialize (IH k). simpl. apply (ids_in_incl _ (id :: ids_of d)) in IH; [|intros x Hx; right; exact Hx].
    destruct (getk_s d k) as [e v|e|]; simpl in *.
    + destruct (p v); simpl; (apply ids_in_snoc; [exact IH|]); repeat constructor; simpl; auto.
    + apply ids_in_snoc; [exact IH|]. repeat constructor; simpl; auto.
    + constructor.
  - rewrite getk_concat_eq. destruct (keys_s a) as [ka|]; [|constructor]. destruct (keys_s b) as [kb|]; [|constructor].
    destruct (key_mem k ka); [|destruct (key_mem k kb)].
    + apply ids_in_wrap; [left; reflexivity|]. eapply ids_in_incl; [|apply IHa].
      intros x Hx. simpl. right. apply in_or_app. left; exact Hx.
    + apply ids_in_wrap; [left; reflexivity|]. eapply ids_in_incl; [|apply IHb].
      intros x Hx. simpl. right. apply in_or_app. right; exact Hx.
    + simpl. repeat constructor; simpl; auto.
  - rewrite getk_slice_eq. destruct (keys_s (LSlice id idx d)) as [ks|]; [|constructor].
    destruct (key_mem k ks).
    + apply ids_in_wrap; [left; reflexivity|]. eapply ids_in_incl; [|apply IH].
      intros x Hx. simpl. right. exact Hx.
    + simpl. repeat constructor; simpl; auto.
Qed.

Theorem getk_apps_ids : forall d k i a, In (i, a) (apps (events_of (getk_s d k))) -> In i (ids_of d).
Proof.
  intros d k i a H. apply in_apps in H.
  pose proof (getk_events_ids d k) as F. unfold ids_in in F. rewrite Forall_forall in F.
  apply (F (App i a) H).
Qed.

Lemma apps_fst_ids d k i : In i (map fst (apps (events_of (getk_s d k)))) -> In i (ids_of d).
Proof.
  intros H. apply in_map_iff in H. destruct H as ([j a] & Hj & Hin). simpl in Hj. subst j.
  eapply getk_apps_ids; eauto.
Qed.

(* ------------------------------------------------------------------------------------------------ *)
(* 2. one keyed lookup applies the function of every stage at most once *)

Theorem getk_apps_once : forall d k, NoDup (ids_of d) -> NoDup (map fst (apps (events_of (getk_s d k)))).
Proof.
  intros d.
  induction d as [id vs|id f d IH|id p d IH|id n d IH|id d IH|id a IHa b IHb|id a IHa b IHb|id idx d IH];
    intros k N; try (simpl; constructor).
  - simpl. destruct (Nat.eqb (fst k) id); [destruct (nth_error vs (snd k))|]; simpl; constructor.
  - simpl in N. inversion N as [|x l Hn N']; subst.
    pose proof (IH k N') as H. pose proof (apps_fst_ids d k id) as Hid. simpl.
    destruct (getk_s d k) as [e v|e|]; simpl in *.
    + rewrite apps_app, map_app. simpl. apply NoDup_snoc; [exact H|]. intros Hin. apply Hn, Hid, Hin.
    + rewrite apps_app. simpl. rewrite app_nil_r. exact H.
    + constructor.
  - simpl in N. inversion N as [|x l Hn N']; subst.
    pose proof (IH k N') as H. pose proof (apps_fst_ids d k id) as Hid. simpl.
    destruct (getk_s d k) as [e v|e|]; simpl in *.
    + destruct (p v); simpl; rewrite apps_app, map_app; simpl;
        (apply NoDup_snoc; [exact H|]); intros Hin; apply Hn, Hid, Hin.
    + rewrite apps_app. simpl. rewrite app_nil_r. exact H.
    + constructor.
  - simpl in N. inversion N as [|x l Hn N']; subst.
    rewrite getk_concat_eq. destruct (keys_s a) as [ka|]; [|constructor]. destruct (keys_s b) as [kb|]; [|constructor].
    destruct (key_mem k ka); [|destruct (key_mem k kb)].
    + rewrite apps_wrap. apply IHa. eapply NoDup_app_l; exact N'.
    + rewrite apps_wrap. apply IHb. eapply NoDup_app_r; exact N'.
    + simpl. constructor.
  - simpl in N. inversion N as [|x l Hn N']; subst.
    rewrite getk_slice_eq. destruct (keys_s (LSlice id idx d)) as [ks|]; [|constructor].
    destruct (key_mem k ks).
    + rewrite apps_wrap. apply IH. exact N'.
    + simpl. constructor.
Qed.

(* ------------------------------------------------------------------------------------------------ *)
(* main lemma: the i-th key is served by the keyed lookup with the i-th reference value, and - on well-formed
   pipelines - with exactly the events of the positional lookup *)

Lemma getk_key_main d : NoDup (ids_of d) -> forall ks i k, keys_s d = Some ks -> nth_error ks i = Some k ->
  exists e v, getk_s d k = KVal e v /\ nth_error (lref d) i = Some v /\ (lwf d -> get_s d i = Some (e, v)).
Proof.
  induction d as [id vs|id f d IH|id p d IH|id n d IH|id d IH|id a IHa b IHb|id a IHa b IHb|id idx d IH];
    intros N ks i k K Hi; pose proof K as K0; simpl in K; try discriminate.
  - (* LSrc *)
    injection K as K. subst ks. rewrite nth_error_map in Hi.
    destruct (nth_error (seq 0 (length vs)) i) as [j|] eqn:Ej; simpl in Hi; [|discriminate].
    injection Hi as Hi. subst k.
    assert (Hlt : i < length vs).
    { rewrite <- (seq_length (length vs) 0). apply nth_error_Some. congruence. }
    assert (Hj : j = i).
    { apply nth_error_nth with (d := 0) in Ej. rewrite seq_nth in Ej by exact Hlt. simpl in Ej. lia. }
    subst j. destruct (nth_error vs i) as [v|] eqn:Ev; [|apply nth_error_None in Ev; lia].
    exists [Fetch id], v. simpl. rewrite Nat.eqb_refl, Ev. auto.
  - (* LMap *)
    simpl in N. inversion N as [|x l Hn N']; subst.
    destruct (IH N' ks i k K Hi) as (e & v & G & R & S).
    exists (e ++ [App id v; Fetch id]), (f v). simpl. rewrite G. split; [reflexivity|]. split.
    + rewrite nth_error_map, R. reflexivity.
    + intros W. rewrite (S W). reflexivity.
  - (* LConcat *)
    simpl in N. inversion N as [|x l Hn N']; subst.
    pose proof (NoDup_app_l _ _ N') as Na. pose proof (NoDup_app_r _ _ N') as Nb.
    destruct (keys_s a) as [ka|] eqn:Ka; [|discriminate]. destruct (keys_s b) as [kb|] eqn:Kb; [|discriminate].
    injection K as K. subst ks.
    pose proof (keys_len a ka Ka) as La.
    rewrite (getk_concat id a b k ka kb Ka Kb).
    destruct (Nat.ltb_spec i (length ka)) as [Hlt|Hge].
    + rewrite nth_error_app1 in Hi by exact Hlt.
      destruct (IHa Na ka i k eq_refl Hi) as (e & v & G & R & S).
      assert (M : key_mem k ka = true) by (apply key_mem_In; eapply nth_error_In; exact Hi).
      exists (e ++ [Fetch id]), v. rewrite M, G. simpl. split; [reflexivity|]. split.
      * rewrite nth_error_app1 by lia. exact R.
      * intros [Wa Wb]. destruct (Nat.ltb_spec i (length (lref a))) as [_|Hc]; [|lia].
        rewrite (S Wa). reflexivity.
    + rewrite nth_error_app2 in Hi by exact Hge.
      destruct (IHb Nb kb (i - length ka) k eq_refl Hi) as (e & v & G & R & S).
      assert (Mb : key_mem k kb = true) by (apply key_mem_In; eapply nth_error_In; exact Hi).
      assert (Ma : key_mem k ka = false).
      { destruct (key_mem k ka) eqn:M; [|reflexivity]. exfalso.
        apply key_mem_In in M. apply key_mem_In in Mb.
        apply (NoDup_app_disj _ _ (fst k) N').
        - eapply keys_fst_ids; [exact Ka|exact M].
        - eapply keys_fst_ids; [exact Kb|exact Mb]. }
      exists (e ++ [Fetch id]), v. rewrite Ma, Mb, G. simpl. split; [reflexivity|]. split.
      * rewrite nth_error_app2 by lia. rewrite <- La. exact R.
      * intros [Wa Wb]. destruct (Nat.ltb_spec i (length (lref a))) as [Hc|_]; [lia|].
        rewrite <- La. rewrite (S Wb). reflexivity.
  - (* LSlice *)
    simpl in N. inversion N as [|x l Hn N']; subst.
    destruct (keys_s d) as [ks'|] eqn:K'; [|discriminate]. injection K as K. subst ks.
    pose proof (keys_len d ks' K') as L.
    assert (M : key_mem k (flat_map (fun i => match nth_error ks' i with Some k => [k] | None => [] end) idx) = true)
      by (apply key_mem_In; eapply nth_error_In; exact Hi).
    destruct (pick_nth_both ks' (lref d) idx L i k Hi) as (j & Hj & Hk & Hv & Hidx).
    destruct (IH N' ks' j k eq_refl Hk) as (e & v & G & R & S).
    exists (e ++ [Fetch id]), v. rewrite getk_slice_eq, K0, M, G. simpl. split; [reflexivity|]. split.
    + apply Hv. exact R.
    + intros (W & X & F). rewrite <- L in F. rewrite (Hidx F), (S W). reflexivity.
Qed.

(* ------------------------------------------------------------------------------------------------ *)
(* 3. a keyed lookup returns an example of the dataset.

   CHANGED with respect to the requested statement: the extra hypothesis  NoDup (ids_of d)  is needed.  Without it
   the statement is false: two sources carrying the same id produce equal keys for different examples, a selection
   then lists the key of the example it selected, and the concatenation below serves that key from its first input.
   Counterexample (checked below, getk_value_in_ref_needs_nodup):
     d = LSlice 7 [1] (LConcat 9 (LSrc 1 [A]) (LSrc 1 [B; C])),  lref d = [B],  keys_s d = Some [(1,0)],
     getk_s d (1,0) = KVal [Fetch 1; Fetch 9; Fetch 7] A   and A is not in lref d.
   (d satisfies lwf, so lwf alone does not help; NoDup (ids_of d) is what every other theorem about ids assumes.)
   For pipelines without LSlice the statement holds without any hypothesis (getk_value_in_ref_noslice). *)

Theorem getk_value_in_ref : forall d, NoDup (ids_of d) -> forall k e v, getk_s d k = KVal e v -> In v (lref d).
Proof.
  induction d as [id vs|id f d IH|id p d IH|id n d IH|id d IH|id a IHa b IHb|id a IHa b IHb|id idx d IH];
    intros N k e v H; try (simpl in H; discriminate).
  - simpl in H. destruct (Nat.eqb (fst k) id); [|discriminate].
    destruct (nth_error vs (snd k)) as [w|] eqn:E; [|discriminate].
    injection H as _ H. subst w. simpl. eapply nth_error_In; exact E.
  - simpl in N. inversion N as [|x l Hn N']; subst.
    simpl in H. destruct (getk_s d k) as [e' v'|e'|] eqn:G; try discriminate.
    injection H as _ H. subst v. simpl. apply in_map. eapply IH; [exact N'|exact G].
  - simpl in N. inversion N as [|x l Hn N']; subst.
    simpl in H. destruct (getk_s d k) as [e' v'|e'|] eqn:G; try discriminate.
    destruct (p v') eqn:Pv; [|discriminate]. injection H as _ H. subst v'. simpl.
    apply filter_In. split; [|exact Pv]. eapply IH; [exact N'|exact G].
  - simpl in N. inversion N as [|x l Hn N']; subst.
    pose proof (NoDup_app_l _ _ N') as Na. pose proof (NoDup_app_r _ _ N') as Nb.
    rewrite getk_concat_eq in H.
    destruct (keys_s a) as [ka|]; [|discriminate]. destruct (keys_s b) as [kb|]; [|discriminate].
    simpl. apply in_or_app.
    destruct (key_mem k ka); [|destruct (key_mem k kb); [|discriminate]].
    + left. destruct (getk_s a k) as [e' v'|e'|] eqn:G; simpl in H; try discriminate.
      injection H as _ H. subst v'. eapply IHa; [exact Na|exact G].
    + right. destruct (getk_s b k) as [e' v'|e'|] eqn:G; simpl in H; try discriminate.
      injection H as _ H. subst v'. eapply IHb; [exact Nb|exact G].
  - pose proof H as H0. rewrite getk_slice_eq in H.
    destruct (keys_s (LSlice id idx d)) as [ks|] eqn:K0; [|discriminate].
    destruct (key_mem k ks) eqn:M; [|discriminate].
    apply key_mem_In in M. apply In_nth_error in M. destruct M as [i Hi].
    destruct (getk_key_main (LSlice id idx d) N ks i k K0 Hi) as (e2 & v2 & G2 & R2 & _).
    rewrite H0 in G2. injection G2 as _ G2. subst v2. eapply nth_error_In; exact R2.
Qed.

Fixpoint no_slice (d : lds) : bool :=
  match d with
  | LSrc _ _ => true
  | LMap _ _ d' | LFilter _ _ d' | LBatch _ _ d' | LUnbatch _ d' => no_slice d'
  | LConcat _ a b | LZip _ a b => no_slice a && no_slice b
  | LSlice _ _ _ => false
  end.

Theorem getk_value_in_ref_noslice : forall d, no_slice d = true -> forall k e v, getk_s d k = KVal e v -> In v (lref d).
Proof.
  induction d as [id vs|id f d IH|id p d IH|id n d IH|id d IH|id a IHa b IHb|id a IHa b IHb|id idx d IH];
    intros N k e v H; try (simpl in H; discriminate); try (simpl in N; discriminate).
  - simpl in H. destruct (Nat.eqb (fst k) id); [|discriminate].
    destruct (nth_error vs (snd k)) as [w|] eqn:E; [|discriminate].
    injection H as _ H. subst w. simpl. eapply nth_error_In; exact E.
  - simpl in N. simpl in H. destruct (getk_s d k) as [e' v'|e'|] eqn:G; try discriminate.
    injection H as _ H. subst v. simpl. apply in_map. eapply IH; [exact N|exact G].
  - simpl in N. simpl in H. destruct (getk_s d k) as [e' v'|e'|] eqn:G; try discriminate.
    destruct (p v') eqn:Pv; [|discriminate]. injection H as _ H. subst v'. simpl.
    apply filter_In. split; [|exact Pv]. eapply IH; [exact N|exact G].
  - simpl in N. apply andb_true_iff in N. destruct N as [Na Nb].
    rewrite getk_concat_eq in H.
    destruct (keys_s a) as [ka|]; [|discriminate]. destruct (keys_s b) as [kb|]; [|discriminate].
    simpl. apply in_or_app.
    destruct (key_mem k ka); [|destruct (key_mem k kb); [|discriminate]].
    + left. destruct (getk_s a k) as [e' v'|e'|] eqn:G; simpl in H; try discriminate.
      injection H as _ H. subst v'. eapply IHa; [exact Na|exact G].
    + right. destruct (getk_s b k) as [e' v'|e'|] eqn:G; simpl in H; try discriminate.
      injection H as _ H. subst v'. eapply IHb; [exact Nb|exact G].
Qed.

Example getk_value_in_ref_needs_nodup :
  let A := VInt 10%Z in let B := VInt 11%Z in let C := VInt 12%Z in
  let d := LSlice 7 [1] (LConcat 9 (LSrc 1 [A]) (LSrc 1 [B; C])) in
  lref d = [B] /\ keys_s d = Some [(1, 0)] /\ getk_s d (1, 0) = KVal [Fetch 1; Fetch 9; Fetch 7] A.
Proof. vm_compute. repeat split; reflexivity. Qed.

(* ------------------------------------------------------------------------------------------------ *)
(* 4. for pipelines that have a key view, looking up the i-th key causes exactly the events, and returns exactly
   the value, of looking up position i *)

Theorem getk_agrees_with_index : forall d, NoDup (ids_of d) -> lwf d -> forall ks i k,
  keys_s d = Some ks -> nth_error ks i = Some k ->
  exists e v, get_s d i = Some (e, v) /\ getk_s d k = KVal e v.
Proof.
  intros d N W ks i k K Hi.
  destruct (getk_key_main d N ks i k K Hi) as (e & v & G & _ & S).
  exists e, v. split; [exact (S W)|exact G].
Qed.

(* the value half needs no well-formedness *)
Theorem getk_key_value : forall d, NoDup (ids_of d) -> forall ks i k,
  keys_s d = Some ks -> nth_error ks i = Some k ->
  exists e v, getk_s d k = KVal e v /\ nth_error (lref d) i = Some v.
Proof.
  intros d N ks i k K Hi.
  destruct (getk_key_main d N ks i k K Hi) as (e & v & G & R & _).
  exists e, v. split; [exact G|exact R].
Qed.

(* ------------------------------------------------------------------------------------------------ *)
(* 5. non-vacuity *)

Definition ex_d : lds :=
  LMap 4 (fun v => v)
    (LFilter 3 (fun v => val_eqb v (VInt 1%Z))
       (LConcat 2 (LSrc 0 [VInt 0%Z; VInt 1%Z; VInt 2%Z]) (LSrc 1 [VInt 1%Z]))).

Example getk_example :
  (* an accepted key of the first source: one application per stage with a function on the path *)
  getk_s ex_d (0, 1) =
    KVal [Fetch 0; Fetch 2; App 3 (VInt 1%Z); Fetch 3; App 4 (VInt 1%Z); Fetch 4] (VInt 1%Z) /\
  apps (events_of (getk_s ex_d (0, 1))) = [(3, VInt 1%Z); (4, VInt 1%Z)] /\
  (* an accepted key of the second source goes through the concatenation's second input *)
  getk_s ex_d (1, 0) =
    KVal [Fetch 1; Fetch 2; App 3 (VInt 1%Z); Fetch 3; App 4 (VInt 1%Z); Fetch 4] (VInt 1%Z) /\
  (* a rejected key: a miss, with the filter application recorded and the map function not run *)
  getk_s ex_d (0, 0) = KMiss [Fetch 0; Fetch 2; App 3 (VInt 0%Z); Fail 3; Fail 4] /\
  apps (events_of (getk_s ex_d (0, 0))) = [(3, VInt 0%Z)] /\
  (* an unknown key misses at the concatenation, no function runs *)
  getk_s ex_d (5, 0) = KMiss [Fail 2; Fail 3; Fail 4] /\
  (* a lazy filter has no key view, so a concatenation over it refuses keyed lookups *)
  keys_s ex_d = None /\
  getk_s (LConcat 9 ex_d (LSrc 8 [VNone])) (0, 1) = KUnsup.
Proof. vm_compute. repeat split; reflexivity. Qed.

(* the agreement theorem instantiated: map over a selection over a concatenation *)
Definition ex_d2 : lds :=
  LMap 4 (fun v => VTup [v])
    (LSlice 3 [3; 0; 3] (LConcat 2 (LSrc 0 [VInt 0%Z; VInt 1%Z; VInt 2%Z]) (LSrc 1 [VInt 7%Z]))).

Example getk_example_index :
  keys_s ex_d2 = Some [(1, 0); (0, 0); (1, 0)] /\
  get_s ex_d2 2 = Some ([Fetch 1; Fetch 2; Fetch 3; App 4 (VInt 7%Z); Fetch 4], VTup [VInt 7%Z]) /\
  getk_s ex_d2 (1, 0) = KVal [Fetch 1; Fetch 2; Fetch 3; App 4 (VInt 7%Z); Fetch 4] (VTup [VInt 7%Z]) /\
  getk_s ex_d2 (0, 1) = KMiss [Fail 3; Fail 4].
Proof. vm_compute. repeat split; reflexivity. Qed.

Print Assumptions getk_apps_ids.
Print Assumptions getk_apps_once.
Print Assumptions getk_value_in_ref.
Print Assumptions getk_agrees_with_index.
