(* RefLemmas_A2.v - per-stage agreement lemmas for the stages that iterate by INDEXING their
   input: DSlice, DCatch, DCache, DPrefetch.  Standard library only; no axioms. *)
From Coq Require Import String.
From Coq Require Import List Arith ZArith Bool Lia ZifyBool ZifyNat.
Require Import LD.Base LD.PySlice LD.Pipeline LD.Ref.
Import ListNotations.
Open Scope Z_scope.

(* ================================================================== helpers *)

(* ---------- py_nth ---------- *)
(* the position Python's l[i] reads, given only len(l) *)
Definition pyidx (n : nat) (i : Z) : option nat :=
  let j := if i <? 0 then i + Z.of_nat n else i in
  if (j <? 0) || (Z.of_nat n <=? j) then None else Some (Z.to_nat j).

Definition nth_res {A} (l : list A) (p : nat) : res A :=
  match nth_error l p with Some a => Ok a | None => Err (lib EIndex) end.

Lemma py_nth_pyidx {A} (l : list A) i :
  py_nth l i = match pyidx (length l) i with Some p => nth_res l p | None => Err (lib EIndex) end.
Proof.
  unfold py_nth, pyidx, nth_res.
  match goal with |- context [orb ?a ?b] => destruct (orb a b) end; reflexivity.
Qed.

Lemma pyidx_lt n i p : pyidx n i = Some p -> (p < n)%nat.
Proof.
  unfold pyidx. destruct (i <? 0) eqn:Hi.
  - destruct ((i + Z.of_nat n <? 0) || (Z.of_nat n <=? i + Z.of_nat n)) eqn:H; [discriminate|].
    intros [= <-]. lia.
  - destruct ((i <? 0) || (Z.of_nat n <=? i)) eqn:H; [discriminate|].
    intros [= <-]. lia.
Qed.

Lemma pyidx_of_nat n j : pyidx n (Z.of_nat j) = if (j <? n)%nat then Some j else None.
Proof.
  unfold pyidx. replace (Z.of_nat j <? 0) with false by lia.
  destruct (j <? n)%nat eqn:H.
  - replace ((Z.of_nat j <? 0) || (Z.of_nat n <=? Z.of_nat j)) with false by lia.
    now rewrite Nat2Z.id.
  - replace ((Z.of_nat j <? 0) || (Z.of_nat n <=? Z.of_nat j)) with true by lia. reflexivity.
Qed.

(* non-negative index: plain nth_error *)
Lemma py_nth_of_nat {A} (l : list A) j : py_nth l (Z.of_nat j) = nth_res l j.
Proof.
  rewrite py_nth_pyidx, pyidx_of_nat. unfold nth_res.
  destruct (j <? length l)%nat eqn:H; [reflexivity|].
  assert (Hn : nth_error l j = None) by (apply nth_error_None; lia).
  now rewrite Hn.
Qed.

Lemma py_nth_of_nat_some {A} (l : list A) j a : nth_error l j = Some a -> py_nth l (Z.of_nat j) = Ok a.
Proof. intros H. rewrite py_nth_of_nat. unfold nth_res. now rewrite H. Qed.

(* negative index, normalised by the length *)
Lemma py_nth_neg {A} (l : list A) i :
  i < 0 -> 0 <= i + Z.of_nat (length l) -> py_nth l i = py_nth l (i + Z.of_nat (length l)).
Proof.
  intros H1 H2. unfold py_nth.
  destruct (i <? 0) eqn:E1; [|lia]. cbv iota.
  destruct (i + Z.of_nat (length l) <? 0) eqn:E2; [lia|]. cbv iota. rewrite ?E2. reflexivity.
Qed.

Lemma py_nth_neg_err {A} (l : list A) i :
  i + Z.of_nat (length l) < 0 -> py_nth l i = Err (lib EIndex).
Proof.
  intros H. unfold py_nth.
  destruct (i <? 0) eqn:E1; [|lia]. cbv iota.
  destruct (i + Z.of_nat (length l) <? 0) eqn:E2; [|lia]. reflexivity.
Qed.

(* norm_neg followed by py_nth is py_nth (the DCache / DConcat / DBatch prologue) *)
Lemma norm_neg_py_nth {A} (l : list A) i :
  (do j <- norm_neg i (Ok (length l)); py_nth l j) = py_nth l i.
Proof.
  unfold norm_neg. destruct (i <? 0) eqn:Hi; simpl; [|reflexivity].
  destruct (i + Z.of_nat (length l) <? 0) eqn:Hj; simpl.
  - symmetry. apply py_nth_neg_err. lia.
  - symmetry. apply py_nth_neg; lia.
Qed.

(* py_nth through two lists related pointwise *)
Lemma Forall2_nth_error_l {A B} (R : A -> B -> Prop) l l' :
  Forall2 R l l' -> forall p a, nth_error l p = Some a -> exists b, nth_error l' p = Some b /\ R a b.
Proof.
  induction 1; intros [|p] a0; simpl; try discriminate.
  - intros [= <-]. eauto.
  - apply IHForall2.
Qed.

Lemma Forall2_nth_error_r {A B} (R : A -> B -> Prop) l l' :
  Forall2 R l l' -> forall p b, nth_error l' p = Some b -> exists a, nth_error l p = Some a /\ R a b.
Proof.
  induction 1; intros [|p] b0; simpl; try discriminate.
  - intros [= <-]. eauto.
  - apply IHForall2.
Qed.

Lemma Forall2_length' {A B} (R : A -> B -> Prop) l l' : Forall2 R l l' -> length l = length l'.
Proof. induction 1; simpl; congruence. Qed.

Lemma py_nth_Forall2 {A B} (R : A -> B -> Prop) l l' i :
  Forall2 R l l' ->
  (py_nth l i = Err (lib EIndex) /\ py_nth l' i = Err (lib EIndex))
  \/ (exists a b, py_nth l i = Ok a /\ py_nth l' i = Ok b /\ R a b).
Proof.
  intros HF. rewrite !py_nth_pyidx. rewrite <- (Forall2_length' _ _ _ HF).
  destruct (pyidx (length l) i) as [p|] eqn:Hp; [|now left].
  apply pyidx_lt in Hp. unfold nth_res.
  destruct (nth_error l p) as [a|] eqn:Ha.
  - destruct (Forall2_nth_error_l _ _ _ HF _ _ Ha) as (b & Hb & HR).
    rewrite Hb. right. eauto.
  - apply nth_error_None in Ha. lia.
Qed.

Lemma py_nth_map {A B} (f : A -> B) l i :
  py_nth (map f l) i = match py_nth l i with Ok a => Ok (f a) | Err e => Err e end.
Proof.
  rewrite !py_nth_pyidx, map_length.
  destruct (pyidx (length l) i) as [p|]; [|reflexivity].
  unfold nth_res. rewrite nth_error_map. now destruct (nth_error l p).
Qed.

(* ---------- omapM / select ---------- *)
Lemma omapM_Forall2 {A B} (f : A -> option B) l r :
  omapM f l = Some r -> Forall2 (fun a b => f a = Some b) l r.
Proof.
  revert r. induction l as [|a l IH]; simpl; intros r.
  - intros [= <-]. constructor.
  - destruct (f a) as [b|] eqn:Hb; simpl; [|discriminate].
    destruct (omapM f l) as [r'|] eqn:Hr; simpl; [|discriminate].
    intros [= <-]. constructor; auto.
Qed.

Lemma Forall2_omapM {A B} (f : A -> option B) l r :
  Forall2 (fun a b => f a = Some b) l r -> omapM f l = Some r.
Proof.
  induction 1; simpl; [reflexivity|].
  rewrite H. simpl. rewrite IHForall2. reflexivity.
Qed.

Lemma select_Forall2 {A} idx (l r : list A) :
  select idx l = Some r -> Forall2 (fun j a => nth_error l j = Some a) idx r.
Proof. apply omapM_Forall2. Qed.

Lemma select_length {A} idx (l r : list A) : select idx l = Some r -> length r = length idx.
Proof. intros H. symmetry. eapply Forall2_length', select_Forall2, H. Qed.

Lemma select_In {A} idx (l r : list A) : select idx l = Some r -> forall a, In a r -> In a l.
Proof.
  intros H. apply select_Forall2 in H. induction H; simpl; [tauto|].
  intros a [<-|Ha]; [eapply nth_error_In; eauto | auto].
Qed.

Lemma select_map {A B} (f : A -> B) idx (l r : list A) :
  select idx l = Some r -> select idx (map f l) = Some (map f r).
Proof.
  intros H. apply select_Forall2 in H. apply Forall2_omapM.
  induction H; simpl; constructor; auto.
  rewrite nth_error_map, H. reflexivity.
Qed.

(* ---------- mapM / nth_key ---------- *)
Lemma Forall2_mapM {A B} (f : A -> res B) l r :
  Forall2 (fun a b => f a = Ok b) l r -> mapM f l = Ok r.
Proof.
  induction 1; simpl; [reflexivity|].
  rewrite H. simpl. rewrite IHForall2. reflexivity.
Qed.

Lemma mapM_Forall2 {A B} (f : A -> res B) l r :
  mapM f l = Ok r -> Forall2 (fun a b => f a = Ok b) l r.
Proof.
  revert r. induction l as [|a l IH]; simpl; intros r.
  - intros [= <-]. constructor.
  - destruct (f a) as [b|] eqn:Hb; simpl; [|discriminate].
    destruct (mapM f l) as [r'|] eqn:Hr; simpl; [|discriminate].
    intros [= <-]. constructor; auto.
Qed.

Lemma nth_key_some ks j k : nth_error ks j = Some k -> nth_key ks j = Ok k.
Proof. unfold nth_key. now intros ->. Qed.

Lemma mapM_nth_key_select ks idx ks' : select idx ks = Some ks' -> mapM (nth_key ks) idx = Ok ks'.
Proof.
  intros H. apply select_Forall2 in H. apply Forall2_mapM.
  induction H; constructor; auto using nth_key_some.
Qed.

(* ---------- loop_get / loop_catch ---------- *)
Lemma loop_get_Forall2 {A} (g : A -> res val) xs vs :
  Forall2 (fun x v => g x = Ok v) xs vs -> loop_get g xs = (vs, End).
Proof.
  induction 1; simpl; [reflexivity|].
  rewrite H, IHForall2. reflexivity.
Qed.

Lemma loop_catch_Forall2 {A} E (g : A -> res val) xs vs :
  Forall2 (fun x v => g x = Ok v) xs vs -> loop_catch E g xs = (vs, End).
Proof.
  induction 1; simpl; [reflexivity|].
  rewrite H, IHForall2. reflexivity.
Qed.

Lemma loop_get_map {A B} (f : A -> B) (g : B -> res val) xs :
  loop_get g (map f xs) = loop_get (fun x => g (f x)) xs.
Proof. induction xs as [|x xs IH]; simpl; [reflexivity|]. now rewrite IH. Qed.

Lemma loop_catch_map {A B} E (f : A -> B) (g : B -> res val) xs :
  loop_catch E g (map f xs) = loop_catch E (fun x => g (f x)) xs.
Proof. induction xs as [|x xs IH]; simpl; [reflexivity|]. now rewrite IH. Qed.

Lemma Forall2_seq_nth_error {A} (l : list A) :
  Forall2 (fun j a => nth_error l j = Some a) (seq 0 (length l)) l.
Proof.
  assert (H : forall pre, Forall2 (fun j a => nth_error (pre ++ l) j = Some a)
                                  (seq (length pre) (length l)) l).
  { induction l as [|a l IH]; intros pre; simpl; constructor.
    - rewrite nth_error_app2 by lia. now rewrite Nat.sub_diag.
    - specialize (IH (pre ++ [a])). rewrite app_length in IH. simpl in IH.
      rewrite <- app_assoc in IH. simpl in IH.
      now replace (length pre + 1)%nat with (S (length pre)) in IH by lia. }
  exact (H []).
Qed.

Lemma Forall2_map_r {A B C} (R : A -> C -> Prop) (f : B -> C) l l' :
  Forall2 (fun a b => R a (f b)) l l' -> Forall2 R l (map f l').
Proof. induction 1; simpl; constructor; auto. Qed.

Lemma Forall2_map_l {A B C} (R : C -> B -> Prop) (f : A -> C) l l' :
  Forall2 (fun a b => R (f a) b) l l' -> Forall2 R (map f l) l'.
Proof. induction 1; simpl; constructor; auto. Qed.

Lemma Forall2_impl' {A B} (R R' : A -> B -> Prop) l l' :
  (forall a b, R a b -> R' a b) -> Forall2 R l l' -> Forall2 R' l l'.
Proof. intros HR. induction 1; constructor; auto. Qed.

(* for j in range(len(l)): yield g(j)   where g reads row j of l *)
Lemma loop_get_seq {A} (l : list A) (h : A -> val) (g : nat -> res val) :
  (forall j a, nth_error l j = Some a -> g j = Ok (h a)) ->
  loop_get g (seq 0 (length l)) = (map h l, End).
Proof.
  intros H. apply loop_get_Forall2, Forall2_map_r.
  eapply Forall2_impl'; [|apply Forall2_seq_nth_error]. auto.
Qed.

Lemma loop_catch_seq {A} E (l : list A) (h : A -> val) (g : nat -> res val) :
  (forall j a, nth_error l j = Some a -> g j = Ok (h a)) ->
  loop_catch E g (seq 0 (length l)) = (map h l, End).
Proof.
  intros H. apply loop_catch_Forall2, Forall2_map_r.
  eapply Forall2_impl'; [|apply Forall2_seq_nth_error]. auto.
Qed.

(* for i in range(len(l)): yield l[i] *)
Lemma loop_get_zseq_py_nth (g : Z -> res val) (l : list val) :
  (forall i, g i = py_nth l i) -> loop_get g (zseq (length l)) = (l, End).
Proof.
  intros H. unfold zseq. rewrite loop_get_map.
  rewrite <- (map_id l) at 2. apply loop_get_seq.
  intros j a Hj. rewrite H. now apply py_nth_of_nat_some.
Qed.

Lemma loop_catch_zseq_py_nth E (g : Z -> res val) (l : list val) :
  (forall i, g i = py_nth l i) -> loop_catch E g (zseq (length l)) = (l, End).
Proof.
  intros H. unfold zseq. rewrite loop_catch_map.
  rewrite <- (map_id l) at 2. apply loop_catch_seq.
  intros j a Hj. rewrite H. now apply py_nth_of_nat_some.
Qed.

(* ---------- assoc / functional / inb / index_of ---------- *)
Lemma assoc_some_In k t v : assoc k t = Some v -> In (k, v) t.
Proof.
  unfold assoc. destruct (find (fun kv => String.eqb k (fst kv)) t) as [[k' v']|] eqn:Hf; simpl; [|discriminate].
  intros [= <-]. apply find_some in Hf. destruct Hf as [Hin Heq]. simpl in Heq.
  apply String.eqb_eq in Heq. now subst.
Qed.

Lemma assoc_none_not_In k t : assoc k t = None -> forall v, ~ In (k, v) t.
Proof.
  unfold assoc. destruct (find (fun kv => String.eqb k (fst kv)) t) as [kv|] eqn:Hf; simpl; [discriminate|].
  intros _ v Hin. apply (find_none _ _ Hf) in Hin. simpl in Hin.
  now rewrite String.eqb_refl in Hin.
Qed.

Lemma In_assoc k v t : In (k, v) t -> exists v', assoc k t = Some v'.
Proof.
  intros Hin. destruct (assoc k t) as [v'|] eqn:Ha; [eauto|].
  exfalso. eapply assoc_none_not_In; eauto.
Qed.

(* with a functional table, assoc finds THE value of any row with that key *)
Lemma functional_assoc t k v : functional t -> In (k, v) t -> assoc k t = Some v.
Proof.
  intros Hf Hin. destruct (In_assoc _ _ _ Hin) as [v' Hv'].
  rewrite Hv'. f_equal. eapply Hf; eauto using assoc_some_In.
Qed.

Lemma functional_incl (t t' : tab) : (forall kv, In kv t' -> In kv t) -> functional t -> functional t'.
Proof. intros Hi Hf k v v' H1 H2. eapply Hf; eauto. Qed.

Lemma functional_select idx (t t' : tab) : select idx t = Some t' -> functional t -> functional t'.
Proof. intros Hs. apply functional_incl. eapply select_In; eauto. Qed.

Lemma inb_map_fst_assoc k (t : tab) :
  inb k (map fst t) = match assoc k t with Some _ => true | None => false end.
Proof.
  unfold inb, assoc. induction t as [|[k' v'] t IH]; simpl; [reflexivity|].
  destruct (String.eqb k k'); simpl; auto.
Qed.

Lemma inb_true_In k ks : inb k ks = true <-> In k ks.
Proof.
  unfold inb. rewrite existsb_exists. split.
  - intros (x & Hin & Heq). apply String.eqb_eq in Heq. now subst.
  - intros Hin. exists k. split; auto. apply String.eqb_refl.
Qed.

(* index_of on the key column finds the row assoc finds *)
Lemma index_of_assoc k (t : tab) :
  match assoc k t with
  | Some v => exists j, index_of k (map fst t) = Some j /\ nth_error (vals t) j = Some v
  | None => index_of k (map fst t) = None
  end.
Proof.
  unfold assoc, vals. induction t as [|[k' v'] t IH]; simpl; [reflexivity|].
  destruct (String.eqb k k') eqn:He; simpl.
  - exists 0%nat. auto.
  - destruct (find (fun kv => String.eqb k (fst kv)) t) as [[k2 v2]|]; simpl in *.
    + destruct IH as (j & Hj & Hn). exists (S j). rewrite Hj. auto.
    + now rewrite IH.
Qed.

Lemma index_of_some_nth k ks j : index_of k ks = Some j -> nth_error ks j = Some k.
Proof.
  revert j. induction ks as [|k' ks IH]; simpl; intros j; [discriminate|].
  destruct (String.eqb k k') eqn:He.
  - intros [= <-]. apply String.eqb_eq in He. now subst.
  - destruct (index_of k ks) as [j'|]; simpl; [|discriminate].
    intros [= <-]. simpl. auto.
Qed.

Lemma nth_error_row (t : tab) j kv :
  nth_error t j = Some kv ->
  nth_error (map fst t) j = Some (fst kv) /\ nth_error (vals t) j = Some (snd kv).
Proof. intros H. unfold vals. rewrite !nth_error_map, H. auto. Qed.

Lemma vals_length (t : tab) : length (vals t) = length t.
Proof. apply map_length. Qed.

(* for k in keys: yield (k, d[k])   over a functional table *)
Lemma keyed_rows_Forall2 (g : key -> res val) (t : tab) :
  functional t ->
  (forall k v, assoc k t = Some v -> g k = Ok v) ->
  Forall2 (fun k p => keyed k (g k) = Ok p) (map fst t) (pairs t).
Proof.
  intros Hf Hg. unfold pairs. apply Forall2_map_l, Forall2_map_r.
  assert (H : forall r, (forall kv, In kv r -> In kv t) ->
                        Forall2 (fun a b : key * val => keyed (fst a) (g (fst a)) = Ok (pair_of (fst b) (snd b))) r r).
  { induction r as [|[k v] r IH]; intros Hin; constructor.
    - simpl. rewrite (Hg k v); [reflexivity|].
      apply functional_assoc; auto. apply Hin. now left.
    - apply IH. intros kv H. apply Hin. now right. }
  apply H. auto.
Qed.

(* ================================================================== unfolding equations *)
Lemma get_i_slice idx d i : get_i (DSlice idx d) i = (do j <- py_nth idx i; get_i d (Z.of_nat j)).
Proof. reflexivity. Qed.
Lemma get_k_slice idx d k :
  get_k (DSlice idx d) k = (do ks <- keys_ (DSlice idx d); if inb k ks then get_k d k else Err (lib EKey)).
Proof. reflexivity. Qed.
Lemma keys_slice idx d : keys_ (DSlice idx d) = (do ks <- keys_ d; mapM (nth_key ks) idx).
Proof. reflexivity. Qed.
Lemma get_i_cache d i : get_i (DCache d) i = (do j <- norm_neg i (len_ d); get_i d j).
Proof. reflexivity. Qed.
Lemma get_k_cache d k :
  get_k (DCache d) k =
  (do ks <- keys_ d; match index_of k ks with Some j => get_i d (Z.of_nat j) | None => Err (lib EValue) end).
Proof. reflexivity. Qed.

Lemma ixok_split d : ixok d = true -> indexable d = true /\ ikeyed d = true.
Proof. unfold ixok. apply andb_true_iff. Qed.

Lemma keys_ok_inv d : keys_ok d = true -> exists ks, keys_ d = Ok ks.
Proof. unfold keys_ok. destruct (keys_ d); [eauto|discriminate]. Qed.

Lemma keys_ok_intro d ks : keys_ d = Ok ks -> keys_ok d = true.
Proof. unfold keys_ok. now intros ->. Qed.

(* the two "iterate by index" loops over an input that agrees with t0 *)
Lemma agrees_keyed_loop d t0 ks :
  agrees d t0 -> keys_ d = Ok ks ->
  Forall2 (fun k p => keyed k (get_k d k) = Ok p) ks (pairs t0).
Proof.
  intros Hag Hks. destruct (ag_keys _ _ Hag _ Hks) as (_ & -> & Hf & _ & _).
  apply keyed_rows_Forall2; auto.
  intros k v Ha. pose proof (ag_getk _ _ Hag _ Hks k) as H. now rewrite Ha in H.
Qed.

(* ---------- iter_ unfolding equations ---------- *)
Lemma iter_catch_f E d :
  iter_ false (DCatch E d) = with_res (len_ d) (fun n => loop_catch E (get_i d) (zseq n)).
Proof. reflexivity. Qed.
Lemma iter_catch_t E d :
  iter_ true (DCatch E d) = with_res (keys_ d) (fun ks => loop_catch E (fun k => keyed k (get_k d k)) ks).
Proof. reflexivity. Qed.
Lemma iter_slice_f idx d :
  iter_ false (DSlice idx d) = loop_get (fun j => get_i d (Z.of_nat j)) idx.
Proof. reflexivity. Qed.
Lemma iter_slice_t idx d :
  iter_ true (DSlice idx d) =
  with_res (keys_ d) (fun ks => loop_get (fun j => do k <- nth_key ks j; keyed k (get_i d (Z.of_nat j))) idx).
Proof. reflexivity. Qed.
Lemma iter_cache_f d :
  iter_ false (DCache d) = with_res (len_ d) (fun n => loop_get (get_i (DCache d)) (zseq n)).
Proof. reflexivity. Qed.
Lemma iter_cache_t d :
  iter_ true (DCache d) =
  with_res (keys_ d) (fun ks => with_res (len_ d) (fun n =>
    loop_get (fun j => do k <- py_nth ks (Z.of_nat j); keyed k (get_i (DCache d) (Z.of_nat j))) (seq 0 n))).
Proof. reflexivity. Qed.
Lemma iter_prefetch w b E d wk :
  iter_ wk (DPrefetch w b E d) =
  if (w =? 1)%nat then
    match E with
    | Some E =>
        if wk then conv_items (with_res (keys_ d) (fun ks => loop_catch E (fun k => keyed k (get_k d k)) ks))
        else with_res (len_ d) (fun n => loop_catch E (get_i d) (zseq n))
    | None => if wk then conv_items (iter_ true d) else iter_ false d
    end
  else
    if wk then ([], Raised (lib ENotImpl))
    else with_res (len_ d) (fun n =>
           match E with
           | Some E => loop_catch E (get_i d) (zseq n)
           | None => loop_get (get_i d) (zseq n)
           end).
Proof. destruct wk; reflexivity. Qed.

(* ---------- the index loops over an input that agrees with its table ---------- *)
Lemma idx_of_ixok d t :
  agrees d t -> ixok d = true -> len_ d = Ok (length t) /\ forall i, get_i d i = py_nth (vals t) i.
Proof. intros Hag Hix. destruct (ixok_split _ Hix). now apply (ag_idx _ _ Hag). Qed.

Lemma catch_loop_idx E d t :
  agrees d t -> ixok d = true ->
  with_res (len_ d) (fun n => loop_catch E (get_i d) (zseq n)) = (vals t, End).
Proof.
  intros Hag Hix. destruct (idx_of_ixok _ _ Hag Hix) as [Hlen Hget].
  rewrite Hlen. unfold with_res. rewrite <- (vals_length t).
  now apply loop_catch_zseq_py_nth.
Qed.

Lemma get_loop_idx d t :
  agrees d t -> ixok d = true ->
  with_res (len_ d) (fun n => loop_get (get_i d) (zseq n)) = (vals t, End).
Proof.
  intros Hag Hix. destruct (idx_of_ixok _ _ Hag Hix) as [Hlen Hget].
  rewrite Hlen. unfold with_res. rewrite <- (vals_length t).
  now apply loop_get_zseq_py_nth.
Qed.

Lemma catch_loop_keys E d t :
  agrees d t -> keys_ok d = true ->
  with_res (keys_ d) (fun ks => loop_catch E (fun k => keyed k (get_k d k)) ks) = (pairs t, End).
Proof.
  intros Hag Hk. destruct (keys_ok_inv _ Hk) as [ks Hks].
  rewrite Hks. unfold with_res. apply loop_catch_Forall2. eapply agrees_keyed_loop; eauto.
Qed.

(* ================================================================== DCatch *)
Lemma stage_catch E d : stage_ok d -> stage_ok (DCatch E d).
Proof.
  intros IH Hwf t Ht.
  change (wfb d = true) in Hwf.
  change (tbl (DCatch E d)) with (if ixok d then tbl d else None) in Ht.
  destruct (ixok d) eqn:Hix; [|discriminate].
  specialize (IH Hwf t Ht).
  constructor.
  - rewrite iter_catch_f. now apply catch_loop_idx.
  - intros Hkb. change (keys_ok d = true) in Hkb.
    rewrite iter_catch_t. now apply catch_loop_keys.
  - intros m H. discriminate H.
  - intros H. discriminate H.
  - intros ks H. discriminate H.
  - intros ks H. discriminate H.
Qed.

(* ================================================================== DCache *)
Lemma get_i_cache_agrees d t :
  agrees d t -> ixok d = true -> forall i, get_i (DCache d) i = py_nth (vals t) i.
Proof.
  intros Hag Hix i. destruct (idx_of_ixok _ _ Hag Hix) as [Hlen Hget].
  rewrite get_i_cache, Hlen, <- (vals_length t).
  transitivity (do j <- norm_neg i (Ok (length (vals t))); py_nth (vals t) j);
    [|apply norm_neg_py_nth].
  destruct (norm_neg i (Ok (length (vals t)))); simpl; auto.
Qed.

Lemma stage_cache d : stage_ok d -> stage_ok (DCache d).
Proof.
  intros IH Hwf t Ht.
  change (wfb d = true) in Hwf.
  change (tbl (DCache d)) with (if ixok d then tbl d else None) in Ht.
  destruct (ixok d) eqn:Hix; [|discriminate].
  specialize (IH Hwf t Ht).
  destruct (idx_of_ixok _ _ IH Hix) as [Hlen Hget].
  pose proof (get_i_cache_agrees _ _ IH Hix) as Hgc.
  constructor.
  - rewrite iter_cache_f, Hlen. unfold with_res. rewrite <- (vals_length t).
    now apply loop_get_zseq_py_nth.
  - intros Hkb. change (keys_ok d = true) in Hkb.
    destruct (keys_ok_inv _ Hkb) as [ks Hks].
    destruct (ag_keys _ _ IH _ Hks) as (_ & -> & _).
    rewrite iter_cache_t, Hks, Hlen. unfold with_res, pairs.
    apply loop_get_seq. intros j kv Hj.
    destruct (nth_error_row _ _ _ Hj) as [H1 H2].
    rewrite (py_nth_of_nat_some _ _ _ H1). unfold bind at 1.
    rewrite Hgc, (py_nth_of_nat_some _ _ _ H2). reflexivity.
  - intros m H. change (len_ d = Ok m) in H. now apply (ag_len _ _ IH).
  - intros _ _. split; [exact Hlen | exact Hgc].
  - intros ks Hks. change (keys_ d = Ok ks) in Hks.
    destruct (ag_keys _ _ IH _ Hks) as (_ & -> & Hf & Hi & Hk).
    repeat split; auto.
    change (keys_ok d = true). eapply keys_ok_intro; eauto.
  - intros ks Hks k. change (keys_ d = Ok ks) in Hks.
    destruct (ag_keys _ _ IH _ Hks) as (_ & Hkeq & _).
    rewrite get_k_cache, Hks. unfold bind. subst ks.
    pose proof (index_of_assoc k t) as Hio.
    destruct (assoc k t) as [v|].
    + destruct Hio as (j & Hj & Hn). rewrite Hj, Hget. now apply py_nth_of_nat_some.
    + rewrite Hio. eexists. reflexivity.
Qed.

(* ================================================================== DPrefetch *)
Lemma conv_items_End l : conv_items (l, End) = (l, End).
Proof. reflexivity. Qed.

Lemma stage_prefetch w b E d : stage_ok d -> stage_ok (DPrefetch w b E d).
Proof.
  intros IH Hwf t Ht.
  change (wfb d = true) in Hwf.
  change (tbl (DPrefetch w b E d)) with
    (if (w =? 1)%nat then (match E with Some _ => if ixok d then tbl d else None | None => tbl d end)
     else if ixok d then tbl d else None) in Ht.
  assert (Hkb : keyedb (DPrefetch w b E d) =
                if (w =? 1)%nat then (match E with Some _ => keys_ok d | None => keyedb d end) else false)
    by reflexivity.
  assert (Hl : len_ (DPrefetch w b E d) = match E with Some _ => Err (lib EType) | None => len_ d end)
    by reflexivity.
  destruct (w =? 1)%nat eqn:Hw; [destruct E as [E'|]|].
  - (* single thread, catching *)
    destruct (ixok d) eqn:Hix; [|discriminate].
    specialize (IH Hwf t Ht).
    constructor.
    + rewrite iter_prefetch, Hw. now apply catch_loop_idx.
    + rewrite Hkb. intros Hk. rewrite iter_prefetch, Hw.
      rewrite (catch_loop_keys E' _ _ IH Hk). apply conv_items_End.
    + intros m H. rewrite Hl in H. discriminate H.
    + intros H. discriminate H.
    + intros ks H. discriminate H.
    + intros ks H. discriminate H.
  - (* single thread, no catch: forwards the input's iterator *)
    specialize (IH Hwf t Ht).
    constructor.
    + rewrite iter_prefetch, Hw. apply (ag_iter _ _ IH).
    + rewrite Hkb. intros Hk. rewrite iter_prefetch, Hw.
      rewrite (ag_iterk _ _ IH Hk). apply conv_items_End.
    + intros m H. rewrite Hl in H. now apply (ag_len _ _ IH).
    + intros H. discriminate H.
    + intros ks H. discriminate H.
    + intros ks H. discriminate H.
  - (* threaded *)
    destruct (ixok d) eqn:Hix; [|discriminate].
    specialize (IH Hwf t Ht).
    constructor.
    + rewrite iter_prefetch, Hw.
      destruct E as [E'|]; [now apply catch_loop_idx | now apply get_loop_idx].
    + rewrite Hkb. intros H. discriminate H.
    + intros m H. rewrite Hl in H. destruct E; [discriminate H | now apply (ag_len _ _ IH)].
    + intros H. discriminate H.
    + intros ks H. discriminate H.
    + intros ks H. discriminate H.
Qed.

(* ================================================================== DSlice *)
Lemma stage_slice idx d : stage_ok d -> stage_ok (DSlice idx d).
Proof.
  intros IH Hwf t Ht.
  change (wfb d = true) in Hwf.
  change (tbl (DSlice idx d)) with (if ixok d then obind (tbl d) (select idx) else None) in Ht.
  destruct (ixok d) eqn:Hix; [|discriminate].
  destruct (tbl d) as [t0|] eqn:Ht0; [|discriminate].
  simpl in Ht. rename Ht into Hsel.
  specialize (IH Hwf t0 Ht0).
  destruct (idx_of_ixok _ _ IH Hix) as [Hlen Hget].
  destruct (ixok_split _ Hix) as [Hi Hk].
  assert (HFv : Forall2 (fun j v => nth_error (vals t0) j = Some v) idx (vals t))
    by (apply select_Forall2, select_map, Hsel).
  assert (Hkeys : forall ks', keys_ (DSlice idx d) = Ok ks' ->
                  keys_ d = Ok (map fst t0) /\ ks' = map fst t /\ functional t0).
  { intros ks' H. rewrite keys_slice in H.
    destruct (keys_ d) as [ks|] eqn:Hks; [|discriminate H].
    destruct (ag_keys _ _ IH _ Hks) as (_ & -> & Hf & _).
    unfold bind in H.
    rewrite (mapM_nth_key_select _ _ _ (select_map fst _ _ _ Hsel)) in H.
    injection H as <-. auto. }
  constructor.
  - rewrite iter_slice_f. apply loop_get_Forall2.
    eapply Forall2_impl'; [|exact HFv]. intros j v H. simpl.
    rewrite Hget. now apply py_nth_of_nat_some.
  - intros Hkb. change (keys_ok d = true) in Hkb.
    destruct (keys_ok_inv _ Hkb) as [ks Hks].
    destruct (ag_keys _ _ IH _ Hks) as (_ & -> & _).
    rewrite iter_slice_t, Hks. unfold with_res, pairs.
    apply loop_get_Forall2, Forall2_map_r.
    eapply Forall2_impl'; [|apply select_Forall2, Hsel]. intros j kv Hj. simpl.
    destruct (nth_error_row _ _ _ Hj) as [H1 H2].
    rewrite (nth_key_some _ _ _ H1). unfold bind at 1.
    rewrite Hget, (py_nth_of_nat_some _ _ _ H2). reflexivity.
  - intros m H. simpl in H. injection H as <-. symmetry. eapply select_length; eauto.
  - intros _ _. split.
    + simpl. f_equal. symmetry. eapply select_length; eauto.
    + intros i. rewrite get_i_slice.
      destruct (py_nth_Forall2 _ idx (vals t) i HFv) as [[H1 H2]|(j & v & H1 & H2 & HR)];
        rewrite H1, H2; unfold bind; [reflexivity|].
      rewrite Hget. now apply py_nth_of_nat_some.
  - intros ks' H. destruct (Hkeys _ H) as (Hks & -> & Hf).
    split; [|split; [|split; [|split]]].
    + change (keys_ok d = true). eapply keys_ok_intro; eauto.
    + reflexivity.
    + eapply functional_select; eauto.
    + reflexivity.
    + exact Hk.
  - intros ks' H k. destruct (Hkeys _ H) as (Hks & -> & Hf).
    rewrite get_k_slice, H. unfold bind. rewrite inb_map_fst_assoc.
    destruct (assoc k t) as [v|] eqn:Ha.
    + apply assoc_some_In in Ha. apply (select_In _ _ _ Hsel) in Ha.
      apply (functional_assoc _ _ _ Hf) in Ha.
      pose proof (ag_getk _ _ IH _ Hks k) as Hg. now rewrite Ha in Hg.
    + eexists. reflexivity.
Qed.
