(* ShuffleCopies.v - Model F, part 1c: a per-epoch reshuffle dataset and its PLAIN copies.
   `ReShuffleDataset.copy()` (freeze=False) builds a new ReShuffleDataset on a copy of the input with the same
   generator: the new object gets an index array of its own (`np.arange(len(input))` in __init__).  ProfilingDataset
   takes such a copy of the pipeline it wraps; `ds.map(f).copy()` copies the reshuffle stage below it.
   State: one `rstate` (Shuffle.v, Part 1) per object.  An operation addresses one object; `CCopy` adds an object.
   The theorems (ShuffleCopiesProofs.v) say that objects do not interact: what an iterator yields is a prefix of the
   array its own object had when the iterator was started, as long as no other iterator OF THE SAME OBJECT is started -
   whatever happens on the other objects (epochs, next() calls, further copies).
   `cstep_alias` is the variant in which all copies share ONE index array (the seeded changes C12h / C20d):
   refuted by a witness.  Definitions only. *)
From Coq Require Import List Arith Bool Lia Permutation.
Require Import LD.Shuffle LD.ShuffleFreeze.
Import ListNotations.

Inductive cop :=
| COn (o : nat) (r : rop)        (* an operation on object o: start of an epoch (with its oracle) / next() of its iterator *)
| CCopy (o : nat).               (* objects ++ [object o .copy()] *)

Definition cinit (n : nat) : list rstate := [rinit n].
Definition cstep (n : nat) (s : list rstate) (op : cop) : list rstate :=
  match op with
  | COn o r => match nth_error s o with Some st => upd s o (rstep st r) | None => s end
  | CCopy o => match nth_error s o with Some _ => s ++ [rinit n] | None => s end
  end.
Definition crun (n : nat) (s : list rstate) (ops : list cop) : list rstate := fold_left (cstep n) ops s.

Definition cop_ok (n : nat) (op : cop) : Prop :=
  match op with COn _ (RStart sg) => Permutation sg (seq 0 n) | _ => True end.
(* no iterator of object o is started by this operation *)
Definition no_start_on (o : nat) (op : cop) : Prop :=
  match op with COn o' (RStart _) => o' <> o | _ => True end.

(* ---- the aliasing variant: every object works on ONE shared index array ---- *)
Record astate := mkA { aarr : list nat; aobjs : list (list nat * list (list nat)) }.   (* per object: positions, outputs *)
Definition ainit (n : nat) : astate := mkA (seq 0 n) [([], [])].
Definition astep (s : astate) (op : cop) : astate :=
  match op with
  | CCopy o => match nth_error (aobjs s) o with Some _ => mkA (aarr s) (aobjs s ++ [([], [])]) | None => s end
  | COn o r =>
      match nth_error (aobjs s) o with
      | None => s
      | Some (ps, os) =>
          let st := rstep (mkR (aarr s) ps os) r in
          mkA (arr st) (upd (aobjs s) o (pos st, outs st))
      end
  end.
Definition arun (s : astate) (ops : list cop) : astate := fold_left astep ops s.

(* ---- correspondence: a history and, per object, what each of its iterators yielded ---- *)
Definition ccase := (nat * list cop * list (list (list nat)))%type.
Definition lists_eqb (a b : list (list nat)) : bool :=
  (length a =? length b) && forallb (fun p => list_eqb_nat (fst p) (snd p)) (combine a b).
Definition ccase_ok (c : ccase) : bool :=
  let '(n, ops, exp) := c in
  let s := crun n (cinit n) ops in
  (length s =? length exp) && forallb (fun p => lists_eqb (outs (fst p)) (snd p)) (combine s exp).
Fixpoint cbad (j : nat) (cs : list ccase) : list nat :=
  match cs with [] => [] | c :: r => if ccase_ok c then cbad (S j) r else j :: cbad (S j) r end.
