(* Bucket.v - Model D: DynamicBucketDataset.__iter__ (core.py) as a fold over the input, generic in
   the bucket class, and its instance DynamicTimeSeriesBucket over exact rationals.
   Definitions only; proofs in BucketProofs.v. *)
From Coq Require Import List Arith Bool Lia QArith.
Import ListNotations.
Local Close Scope Q_scope.

Section Bucket.
  Variable ex : Type.
  Variable bucket : Type.
  Variable bdata : bucket -> list ex.
  Variable binit : ex -> bucket.
  Variable bappend : bucket -> ex -> option bucket.     (* maybe_append: None = assess() said no *)
  Variable bcomplete : bucket -> bool.                  (* is_completed *)

  Variable expiration : option nat.
  Variable max_buffered : option nat.
  Variable drop : bool.                                 (* drop_incomplete *)
  Variable srt : list ex -> list ex.                    (* sorted(data, key=sort_key, reverse=..) or identity *)

  Definition open := (bucket * nat)%type.               (* bucket, creation index *)
  (* what leaves the loop: a batch handed to the consumer, or an incomplete batch that is dropped;
     `true` marks batches emitted because the bucket completed *)
  Inductive outb := Emit (completed : bool) (l : list ex) | Drop (l : list ex).
  Definition payload (o : outb) := match o with Emit _ l => l | Drop l => l end.
  Definition release (b : bucket) : outb := if drop then Drop (bdata b) else Emit false (srt (bdata b)).

  (* maybe_append asserts `not is_completed()`: an open bucket that is completed would raise AssertionError *)
  Fixpoint first_fit (bs : list open) (x : ex) (i : nat) : option (list open * nat) :=
    match bs with
    | [] => Some ([(binit x, i)], 0)
    | (b, c) :: r =>
        if bcomplete b then None else
        match bappend b x with
        | Some b' => Some ((b', c) :: r, 0)
        | None => match first_fit r x i with
                  | Some (r', j) => Some ((b, c) :: r', S j)
                  | None => None
                  end
        end
    end.

  Fixpoint remove_nth {A} (l : list A) (j : nat) : list A :=
    match l, j with [], _ => [] | _ :: r, O => r | a :: r, S j' => a :: remove_nth r j' end.

  Definition complete_step (bs : list open) (j : nat) : list open * list outb :=
    match nth_error bs j with
    | Some (b, _) => if bcomplete b then (remove_nth bs j, [Emit true (srt (bdata b))]) else (bs, [])
    | None => (bs, [])
    end.

  (* `for j, (bucket, creation_idx) in enumerate(buckets): if i - creation_idx >= expiration: ...; break` *)
  Fixpoint expire_first (bs : list open) (i E : nat) : list open * list outb :=
    match bs with
    | [] => ([], [])
    | (b, c) :: r => if E <=? i - c then (r, [release b])
                     else let '(r', o) := expire_first r i E in ((b, c) :: r', o)
    end.
  Definition expire_step (bs : list open) (i : nat) : list open * list outb :=
    match expiration with Some E => expire_first bs i E | None => (bs, []) end.

  Definition buffered (bs : list open) : nat := length (concat (map (fun o => bdata (fst o)) bs)).

  (* `while buffered_count > max_buffered_examples: buckets.pop(0)` *)
  Fixpoint overflow (fuel : nat) (bs : list open) (M : nat) : list open * list outb :=
    match fuel with
    | O => (bs, [])
    | S f => if M <? buffered bs
             then match bs with
                  | [] => ([], [])
                  | (b, _) :: r => let '(r', o) := overflow f r M in (r', release b :: o)
                  end
             else (bs, [])
    end.
  Definition overflow_step (bs : list open) : list open * list outb :=
    match max_buffered with Some M => overflow (length bs) bs M | None => (bs, []) end.

  Definition step (bs : list open) (i : nat) (x : ex) : option (list open * list outb) :=
    match first_fit bs x i with
    | None => None
    | Some (bs1, j) =>
        let '(bs2, o1) := complete_step bs1 j in
        let '(bs3, o2) := expire_step bs2 i in
        let '(bs4, o3) := overflow_step bs3 in
        Some (bs4, o1 ++ o2 ++ o3)
    end.

  (* None = the assertion in maybe_append fired *)
  Fixpoint run (bs : list open) (i : nat) (xs : list ex) : option (list outb) :=
    match xs with
    | [] => Some (map (fun o => release (fst o)) bs)
    | x :: r => match step bs i x with
                | None => None
                | Some (bs', o) => option_map (app o) (run bs' (S i) r)
                end
    end.

  (* the same run, recording at every hand-over to the consumer how many consumed examples are still
     withheld (pulled - handed over - dropped), i.e. what sits in open buckets plus what this step still
     has to release *)
  Definition withheld_after (pending : list outb) (bs : list open) : nat :=
    length (concat (map payload pending)) + buffered bs.
  Fixpoint annotate (os : list outb) (bs : list open) : list (outb * nat) :=
    match os with
    | [] => []
    | o :: r => (o, withheld_after r bs) :: annotate r bs
    end.
  Fixpoint run_withheld (bs : list open) (i : nat) (xs : list ex) : option (list (outb * nat)) :=
    match xs with
    | [] => Some (annotate (map (fun o => release (fst o)) bs) [])
    | x :: r => match step bs i x with
                | None => None
                | Some (bs', o) => option_map (app (annotate o bs')) (run_withheld bs' (S i) r)
                end
    end.

  Definition emitted (os : list outb) : list (list ex) :=
    flat_map (fun o => match o with Emit _ l => [l] | Drop _ => [] end) os.
  Definition dropped (os : list outb) : list (list ex) :=
    flat_map (fun o => match o with Drop l => [l] | Emit _ _ => [] end) os.
End Bucket.

(* ---------- DynamicTimeSeriesBucket over exact rationals (the tie runs the real class on Fractions) ---------- *)
Definition tex := (nat * Q)%type.       (* example id, its length *)
Record tsb := mkTsb { tdata : list tex; tlower : Q; tupper : Q; tmax : Q }.

Section TimeSeries.
  Local Open Scope Q_scope.
  Variable batch_size : nat.
  Variable rate : Q.                     (* max_padding_rate, < 1 *)
  Variable mts : option Q.               (* max_total_size *)

  Definition Qmax' (a b : Q) : Q := if Qle_bool a b then b else a.
  Definition Qmin' (a b : Q) : Q := if Qle_bool a b then a else b.
  Definition Qlt_bool' (a b : Q) : bool := negb (Qle_bool b a).
  Definition qlen (n : nat) : Q := inject_Z (Z.of_nat n).

  Definition ts_init (x : tex) : tsb :=
    mkTsb [x] (snd x * (1 - rate)) (snd x / (1 - rate)) (snd x).
  Definition ts_complete (b : tsb) : bool :=
    (batch_size <=? length (tdata b))%nat ||
    match mts with Some m => Qlt_bool' m (qlen (S (length (tdata b))) * tmax b) | None => false end.
  (* assess (with the fix for F11: the new example's own length counts towards max_total_size) *)
  Definition ts_assess (b : tsb) (x : tex) : bool :=
    (match mts with
     | Some m => negb (Qlt_bool' m (qlen (S (length (tdata b))) * Qmax' (tmax b) (snd x)))
     | None => true
     end) && Qle_bool (tlower b) (snd x) && Qle_bool (snd x) (tupper b).
  Definition ts_append (b : tsb) (x : tex) : option tsb :=
    if ts_assess b x then
      Some (mkTsb (tdata b ++ [x]) (Qmax' (tlower b) (snd x * (1 - rate)))
                  (Qmin' (tupper b) (snd x / (1 - rate))) (Qmax' (tmax b) (snd x)))
    else None.
End TimeSeries.

(* the configuration the tie uses: sort_key = the length (or none), reverse or not *)
Section Sorting.
  Fixpoint ins_by (leb : tex -> tex -> bool) (x : tex) (l : list tex) : list tex :=
    match l with [] => [x] | y :: t => if leb x y then x :: l else y :: ins_by leb x t end.
  (* Python's sorted is stable: insert AFTER equal elements when building from the right *)
  Definition stable_sort (leb : tex -> tex -> bool) (l : list tex) : list tex := fold_right (ins_by leb) [] l.
  Definition by_len (a b : tex) : bool := Qle_bool (snd a) (snd b).
  Definition by_len_rev (a b : tex) : bool := Qle_bool (snd b) (snd a).
End Sorting.

Definition ts_run (batch_size : nat) (rate : Q) (mts : option Q) (expiration max_buffered : option nat)
           (drop : bool) (sortmode : nat) (xs : list tex) : option (list (outb tex * nat)) :=
  let srt := match sortmode with
             | O => fun l => l
             | 1%nat => stable_sort by_len
             | _ => stable_sort by_len_rev
             end in
  run_withheld tex tsb tdata (ts_init rate) (ts_append rate mts) (ts_complete batch_size mts)
               expiration max_buffered drop srt [] 0 xs.
