(* Shuffle.v - Model F: the random stages of core.py with the random generator as an ORACLE
   (whatever permutation / choice numpy produces is an argument), so theorems hold for every random state.
     Part 1: ReShuffleDataset - ONE index array shuffled in place, shared by all iterators in flight
     Part 2: LocalShuffleDataset - a per-iterator buffer
     Part 3: one-time shuffle, shuffled tiling, sampling without replacement as position selections
     Part 4: pipelines whose random stages draw from a store of generator streams (C13)
   Definitions only; proofs in ShuffleProofs.v. *)
From Coq Require Import List Arith Bool Lia Permutation.
Import ListNotations.

(* ---------------------------------------------------------------- Part 1 *)
Definition apply_perm (sigma arr : list nat) : list nat := map (fun i => nth i arr 0) sigma.

Record rstate := mkR { arr : list nat;            (* self._permutation, mutated in place *)
                       pos : list nat;            (* per iterator in flight: next position *)
                       outs : list (list nat) }.  (* per iterator: input positions yielded so far *)
Definition rinit (n : nat) : rstate := mkR (seq 0 n) [] [].

Inductive rop :=
| RStart (sigma : list nat)        (* iter(ds): `self.permutation` = rng.shuffle(self._permutation) with oracle sigma *)
| RNext (it : nat).                (* next(iterator it) *)

Fixpoint upd {A} (l : list A) (i : nat) (a : A) : list A :=
  match l, i with [], _ => [] | _ :: r, O => a :: r | x :: r, S i' => x :: upd r i' a end.

Definition rstep (s : rstate) (o : rop) : rstate :=
  match o with
  | RStart sigma => mkR (apply_perm sigma (arr s)) (pos s ++ [0]) (outs s ++ [[]])
  | RNext it =>
      match nth_error (pos s) it with
      | None => s
      | Some p => match nth_error (arr s) p with
                  | None => s                                  (* exhausted: StopIteration *)
                  | Some idx => mkR (arr s) (upd (pos s) it (S p)) (upd (outs s) it (nth it (outs s) [] ++ [idx]))
                  end
      end
  end.
Definition rrun (s : rstate) (ops : list rop) : rstate := fold_left rstep ops s.

(* ---------------------------------------------------------------- Part 2 *)
Section Local.
  Context {A : Type}.
  Fixpoint remove_at (l : list A) (i : nat) : list A :=
    match l, i with [], _ => [] | _ :: r, O => r | x :: r, S i' => x :: remove_at r i' end.
  (* streaming phase: (emitted, buffer, unused choices) *)
  Fixpoint local_stream (B : nat) (buf : list A) (choices : list nat) (xs : list A) : list A * list A :=
    match xs with
    | [] => ([], buf)
    | x :: r =>
        let buf' := buf ++ [x] in
        if B <=? length buf' then
          match choices with
          | c :: cs => match nth_error buf' c with
                       | Some y => let '(o, b) := local_stream B (remove_at buf' c) cs r in (y :: o, b)
                       | None => ([], buf')             (* choice out of range: cannot happen for c < B *)
                       end
          | [] => ([], buf')
          end
        else local_stream B buf' choices r
    end.
  Definition local_shuffle (B : nat) (choices sigma : list nat) (xs : list A) (d : A) : list A :=
    let '(o, buf) := local_stream B [] choices xs in
    o ++ map (fun i => nth i buf d) sigma.
End Local.

(* ---------------------------------------------------------------- Part 4 *)
(* a draw recorded from a generator: shuffle(array of length n) produced a permutation; choice(B) produced c *)
Inductive draw := DShuffle (sigma : list nat) | DChoice (c : nat).
Definition store := list (list draw).         (* remaining stream of each generator; id 0 = numpy's global state *)

Inductive rds :=
| XSrc (n : nat)                              (* any deterministic indexable pipeline of n examples *)
| XDet (d : rds)                              (* a deterministic element-wise stage (map, ...) *)
| XShuffleOnce (perm : list nat) (d : rds)    (* shuffle(False): fixed at construction *)
| XReShuffle (g : nat) (d : rds)              (* shuffle(True, rng=g) *)
| XLocal (g : nat) (B : nat) (d : rds)        (* shuffle(True, rng=g, buffer_size=B) *)
| XPrefetch (d : rds)                         (* prefetch: iterates a frozen copy *)
| XApply (g : nat) (d : rds).                 (* apply(lambda ds: ds.shuffle(True, rng=g), lazy=True): every epoch builds a
                                                 fresh reshuffle stage on the input, freezes it (one draw), iterates it *)

Definition take_draw (st : store) (g : nat) : option (draw * store) :=
  match nth_error st g with
  | Some (x :: r) => Some (x, upd st g r)
  | _ => None
  end.

(* local shuffle drawing its choices one by one from generator g *)
Fixpoint xlocal (B : nat) (g : nat) (buf : list nat) (xs : list nat) (st : store) : option (list nat * store) :=
  match xs with
  | [] => match take_draw st g with
          | Some (DShuffle sigma, st') => if length sigma =? length buf then Some (map (fun i => nth i buf 0) sigma, st') else None
          | _ => None
          end
  | x :: r =>
      let buf' := buf ++ [x] in
      if B <=? length buf' then
        match take_draw st g with
        | Some (DChoice c, st') =>
            match nth_error buf' c with
            | Some y => match xlocal B g (remove_at buf' c) r st' with
                        | Some (o, st'') => Some (y :: o, st'')
                        | None => None
                        end
            | None => None
            end
        | _ => None
        end
      else xlocal B g buf' r st
  end.

(* one epoch: the order (as source positions) and the store afterwards; None = stream exhausted / ill-typed draw.
   ReShuffle keeps its index array between epochs: `arrs` maps each ReShuffle node (by depth-first number) to it;
   we thread it as part of the state *)
Fixpoint epoch (d : rds) (arrs : list (list nat)) (k : nat) (st : store) : option (list nat * list (list nat) * nat * store) :=
  (* k = number of the next ReShuffle node *)
  match d with
  | XSrc n => Some (seq 0 n, arrs, k, st)
  | XDet d' | XPrefetch d' => epoch d' arrs k st
  | XShuffleOnce perm d' =>
      match epoch d' arrs k st with
      | Some (o, a, k', st') => Some (map (fun i => nth i o 0) perm, a, k', st')
      | None => None
      end
  | XReShuffle g d' =>
      (* `for idx in self.permutation` shuffles first (drawing from g), THEN the input is indexed element by element *)
      match take_draw st g with
      | Some (DShuffle sigma, st1) =>
          let cur := nth k arrs [] in
          if length sigma =? length cur then
            let new := apply_perm sigma cur in
            match epoch d' (upd arrs k new) (S k) st1 with
            | Some (o, a, k', st2) => Some (map (fun i => nth i o 0) new, a, k', st2)
            | None => None
            end
          else None
      | _ => None
      end
  | XLocal g B d' =>
      match epoch d' arrs k st with
      | Some (o, a, k', st1) =>
          match xlocal B g [] o st1 with
          | Some (o', st2) => Some (o', a, k', st2)
          | None => None
          end
      | None => None
      end
  | XApply g d' =>
      (* the index array of the freshly built stage is 0..n-1 again: the epoch order is the drawn permutation itself *)
      match take_draw st g with
      | Some (DShuffle sigma, st1) =>
          match epoch d' arrs k st1 with
          | Some (o, a, k', st2) => if length sigma =? length o then Some (map (fun i => nth i o 0) sigma, a, k', st2) else None
          | None => None
          end
      | _ => None
      end
  end.

Fixpoint rngs_of (d : rds) : list nat :=
  match d with
  | XSrc _ => []
  | XDet d' | XPrefetch d' | XShuffleOnce _ d' => rngs_of d'
  | XReShuffle g d' | XLocal g _ d' | XApply g d' => g :: rngs_of d'
  end.
Fixpoint len_of (d : rds) : nat :=
  match d with
  | XSrc n => n
  | XDet d' | XPrefetch d' | XReShuffle _ d' | XLocal _ _ d' | XApply _ d' => len_of d'
  | XShuffleOnce perm _ => length perm
  end.
Fixpoint arrs0 (d : rds) : list (list nat) :=
  match d with
  | XSrc _ => []
  | XDet d' | XPrefetch d' | XShuffleOnce _ d' | XLocal _ _ d' | XApply _ d' => arrs0 d'
  | XReShuffle _ d' => seq 0 (len_of d') :: arrs0 d'
  end.
(* several epochs in a row *)
Fixpoint epochs (d : rds) (arrs : list (list nat)) (st : store) (m : nat) : option (list (list nat) * store) :=
  match m with
  | O => Some ([], st)
  | S m' => match epoch d arrs 0 st with
            | Some (o, a, _, st') => match epochs d a st' m' with
                                     | Some (os, st'') => Some (o :: os, st'')
                                     | None => None
                                     end
            | None => None
            end
  end.
(* copy(): the repaired code keeps every stage's own generator; the originally pinned code fell back to the global one *)
Definition copy_fixed (d : rds) : rds := d.
Fixpoint copy_pinned (d : rds) : rds :=
  match d with
  | XSrc n => XSrc n
  | XDet d' => XDet (copy_pinned d')
  | XPrefetch d' => XPrefetch (copy_pinned d')
  | XShuffleOnce p d' => XShuffleOnce p (copy_pinned d')
  | XReShuffle _ d' => XReShuffle 0 (copy_pinned d')
  | XLocal _ B d' => XLocal 0 B (copy_pinned d')
  | XApply g d' => XApply g (copy_pinned d')
  end.
