(* Laws.v - algebraic laws of the pipeline stages, stated on the eager reference `tbl`, plus the
   corollary that transfers equality of references to equality of every observer of the model.
   Standard library only; no axioms. *)
From Coq Require Import String.
From Coq Require Import List Arith ZArith Bool Lia ZifyBool ZifyNat.
From Coq Require Import Sorted.
Require Import LD.Base LD.PySlice LD.Pipeline LD.Build LD.BuildExtra LD.Ref LD.RefTheorem.
Require LD.RefLemmas_A1 LD.RefLemmas_A2.
Import ListNotations.

(* ------------------------------------------------------------------------------------------ *)
(* transfer: equal references => equal observations *)
Theorem same_tbl_same_obs d1 d2 t : wfb d1 = true -> wfb d2 = true -> tbl d1 = Some t -> tbl d2 = Some t ->
  iter_ false d1 = iter_ false d2 /\
  (forall m1 m2, len_ d1 = Ok m1 -> len_ d2 = Ok m2 -> m1 = m2) /\
  (indexable d1 = true -> ikeyed d1 = true -> indexable d2 = true -> ikeyed d2 = true ->
     len_ d1 = len_ d2 /\ forall i, get_i d1 i = get_i d2 i).
Proof.
  intros W1 W2 T1 T2.
  pose proof (agrees_of_tbl d1 t W1 T1) as A1.
  pose proof (agrees_of_tbl d2 t W2 T2) as A2.
  split; [|split].
  - rewrite (ag_iter _ _ A1), (ag_iter _ _ A2). reflexivity.
  - intros m1 m2 H1 H2. rewrite (ag_len _ _ A1 _ H1), (ag_len _ _ A2 _ H2). reflexivity.
  - intros I1 K1 I2 K2.
    destruct (ag_idx _ _ A1 I1 K1) as [L1 G1].
    destruct (ag_idx _ _ A2 I2 K2) as [L2 G2].
    split.
    + rewrite L1, L2. reflexivity.
    + intros i. rewrite G1, G2. reflexivity.
Qed.

(* ------------------------------------------------------------------------------------------ *)
(* generic helpers *)
Lemma omapM_map {A B C} (g : B -> option C) (h : A -> B) l :
  omapM g (map h l) = omapM (fun x => g (h x)) l.
Proof. induction l as [|a l IH]; simpl; [reflexivity|]. rewrite IH. reflexivity. Qed.

Lemma omapM_ext {A B} (f g : A -> option B) l : (forall a, f a = g a) -> omapM f l = omapM g l.
Proof. intros H. induction l as [|a l IH]; simpl; [reflexivity|]. rewrite H, IH. reflexivity. Qed.

Lemma map_rows_cons f kv (t : tab) :
  map_rows f (kv :: t) =
  match f (snd kv) with
  | Ok w => obind (map_rows f t) (fun r => Some ((fst kv, w) :: r))
  | Err _ => None
  end.
Proof. unfold map_rows. simpl. destruct (f (snd kv)); reflexivity. Qed.

Lemma map_rows_nil f : map_rows f [] = Some [].
Proof. reflexivity. Qed.

Lemma map_rows_app f (a b : tab) :
  map_rows f (a ++ b) =
  obind (map_rows f a) (fun a' => obind (map_rows f b) (fun b' => Some (a' ++ b'))).
Proof.
  induction a as [|kv a IH]; simpl app.
  - rewrite map_rows_nil. simpl. destruct (map_rows f b); reflexivity.
  - rewrite !map_rows_cons. destruct (f (snd kv)); [|reflexivity].
    rewrite IH. destruct (map_rows f a); simpl; [|reflexivity].
    destruct (map_rows f b); reflexivity.
Qed.

(* ------------------------------------------------------------------------------------------ *)
(* 2. map(f).map(g) = map(g after f) *)
Lemma map_rows_compose f g (t : tab) :
  obind (map_rows f t) (map_rows g) = map_rows (fun v => bind (f v) g) t.
Proof.
  induction t as [|kv t IH].
  - reflexivity.
  - rewrite !map_rows_cons. destruct (f (snd kv)) as [w|e]; cbn [bind obind]; [|reflexivity].
    rewrite <- IH. destruct (map_rows f t) as [r|]; cbn [obind].
    + rewrite map_rows_cons. reflexivity.
    + destruct (g w); reflexivity.
Qed.

Theorem law_map_map f g d : tbl (DMap g (DMap f d)) = tbl (DMap (fun v => bind (f v) g) d).
Proof.
  simpl. destruct (tbl d) as [t|]; simpl; [|reflexivity]. apply map_rows_compose.
Qed.

(* ------------------------------------------------------------------------------------------ *)
(* 4. map distributes over concatenation *)
Lemma map_rows_concat f (ts : list tab) :
  map_rows f (concat ts) = option_map (@concat _) (omapM (map_rows f) ts).
Proof.
  induction ts as [|a ts IH]; simpl.
  - reflexivity.
  - rewrite map_rows_app, IH. destruct (map_rows f a); simpl; [|reflexivity].
    destruct (omapM (map_rows f) ts); reflexivity.
Qed.

Lemma concat_map_rows_gen f {A} (T : A -> option tab) l :
  obind (option_map (@concat _) (omapM T l)) (map_rows f)
  = option_map (@concat _) (omapM (fun x => obind (T x) (map_rows f)) l).
Proof.
  induction l as [|d l IH]; [reflexivity|].
  cbn [omapM]. fold (omapM T l). fold (omapM (fun x => obind (T x) (map_rows f)) l).
  destruct (T d) as [t|]; cbn [obind option_map]; [|reflexivity].
  destruct (omapM T l) as [ts|]; cbn [obind option_map] in *.
  - cbn [concat]. rewrite map_rows_app. destruct (map_rows f t); cbn [obind option_map]; [|reflexivity].
    rewrite IH. destruct (omapM _ l); reflexivity.
  - destruct (map_rows f t); cbn [obind option_map]; [|reflexivity].
    destruct (omapM _ l); cbn [obind option_map] in *; [discriminate|reflexivity].
Qed.

Theorem law_map_concat f l : tbl (DMap f (DConcat l)) = tbl (DConcat (map (DMap f) l)).
Proof.
  change (obind (option_map (@concat _) (omapM tbl l)) (map_rows f)
          = option_map (@concat _) (omapM tbl (map (DMap f) l))).
  rewrite omapM_map. apply concat_map_rows_gen.
Qed.

(* ------------------------------------------------------------------------------------------ *)
(* 7. tile(r) = r-fold concatenation *)
Theorem law_tile d t r : tbl d = Some t -> tbl (DConcat (repeat d r)) = Some (concat (repeat t r)).
Proof.
  intros H.
  change (option_map (@concat _) (omapM tbl (repeat d r)) = Some (concat (repeat t r))).
  assert (E : omapM tbl (repeat d r) = Some (repeat t r)).
  { induction r as [|r IH]; simpl; [reflexivity|]. rewrite H. simpl. rewrite IH. reflexivity. }
  rewrite E. reflexivity.
Qed.

(* ------------------------------------------------------------------------------------------ *)
(* 6. map distributes over caching (cache is transparent).  The side condition is not even needed:
   when the input is not integer-indexable both sides are undefined. *)
Theorem law_map_cache_strong f d : tbl (DCache (DMap f d)) = tbl (DMap f (DCache d)).
Proof.
  simpl. change (ixok (DMap f d)) with (ixok d).
  destruct (ixok d); reflexivity.
Qed.

Theorem law_map_cache f d : ixok d = true -> tbl (DCache (DMap f d)) = tbl (DMap f (DCache d)).
Proof. intros _. apply law_map_cache_strong. Qed.

(* ------------------------------------------------------------------------------------------ *)
(* 3. map distributes over slicing / one-time shuffling / sorting (all are index selections).
   `ixok (DMap f d) = ixok d` holds by computation. *)
Lemma select_rel_back f idx (t0 t1 t : tab) :
  Forall2 (RefLemmas_A1.row_rel f) t0 t1 -> select idx t1 = Some t ->
  exists t0', select idx t0 = Some t0' /\ Forall2 (RefLemmas_A1.row_rel f) t0' t.
Proof.
  intros R. revert t. induction idx as [|i idx IH]; intros t.
  - intros [= <-]. exists []. split; [reflexivity|constructor].
  - unfold select. cbn [omapM]. fold (select idx t1). fold (select idx t0).
    destruct (nth_error t1 i) as [b|] eqn:Eb; cbn [obind]; [|discriminate].
    destruct (select idx t1) as [r|] eqn:Er; cbn [obind]; [|discriminate].
    intros [= <-].
    destruct (RefLemmas_A2.Forall2_nth_error_r _ _ _ R _ _ Eb) as [a [Ea Rab]].
    destruct (IH _ eq_refl) as [r0 [Hr0 Rr]].
    rewrite Ea, Hr0. cbn [obind]. eexists. split; [reflexivity|]. constructor; assumption.
Qed.

Lemma select_rel_fwd f idx (t0 t1 t0' : tab) :
  Forall2 (RefLemmas_A1.row_rel f) t0 t1 -> select idx t0 = Some t0' ->
  exists t, select idx t1 = Some t /\ Forall2 (RefLemmas_A1.row_rel f) t0' t.
Proof.
  intros R. revert t0'. induction idx as [|i idx IH]; intros t0'.
  - intros [= <-]. exists []. split; [reflexivity|constructor].
  - unfold select. cbn [omapM]. fold (select idx t1). fold (select idx t0).
    destruct (nth_error t0 i) as [a|] eqn:Ea; cbn [obind]; [|discriminate].
    destruct (select idx t0) as [r0|] eqn:Er; cbn [obind]; [|discriminate].
    intros [= <-].
    destruct (RefLemmas_A2.Forall2_nth_error_l _ _ _ R _ _ Ea) as [b [Eb Rab]].
    destruct (IH _ eq_refl) as [r [Hr Rr]].
    rewrite Eb, Hr. cbn [obind]. eexists. split; [reflexivity|]. constructor; assumption.
Qed.

Theorem law_map_slice f idx d t : ixok d = true ->
  tbl (DSlice idx (DMap f d)) = Some t -> tbl (DMap f (DSlice idx d)) = Some t.
Proof.
  intros X.
  change (tbl (DSlice idx (DMap f d))) with (if ixok d then obind (obind (tbl d) (map_rows f)) (select idx) else None).
  change (tbl (DMap f (DSlice idx d))) with (obind (if ixok d then obind (tbl d) (select idx) else None) (map_rows f)).
  rewrite X. destruct (tbl d) as [t0|]; cbn [obind]; [|discriminate].
  destruct (map_rows f t0) as [t1|] eqn:E1; cbn [obind]; [|discriminate].
  intros Hs. apply RefLemmas_A1.map_rows_rel in E1.
  destruct (select_rel_back _ _ _ _ _ E1 Hs) as [t0' [H0 R]].
  rewrite H0. cbn [obind]. apply RefLemmas_A1.rel_map_rows, R.
Qed.

(* The converse fails only when f raises on an example the slice drops: e.g. d = [0; 1], idx = [0],
   f raising on 1: the right-hand side is [f 0] but the left-hand side is undefined (in Python the
   two pipelines are in fact both lazy, so this only reflects that `tbl` is the EAGER reference of
   the inner map).  Under definedness of the full map the converse holds. *)
Theorem law_map_slice_conv f idx d t : ixok d = true -> tbl (DMap f d) <> None ->
  tbl (DMap f (DSlice idx d)) = Some t -> tbl (DSlice idx (DMap f d)) = Some t.
Proof.
  intros X.
  change (tbl (DSlice idx (DMap f d))) with (if ixok d then obind (obind (tbl d) (map_rows f)) (select idx) else None).
  change (tbl (DMap f (DSlice idx d))) with (obind (if ixok d then obind (tbl d) (select idx) else None) (map_rows f)).
  change (tbl (DMap f d)) with (obind (tbl d) (map_rows f)).
  rewrite X. destruct (tbl d) as [t0|]; cbn [obind]; [|discriminate].
  destruct (map_rows f t0) as [t1|] eqn:E1; cbn [obind]; [|congruence].
  intros _. destruct (select idx t0) as [t0'|] eqn:E0; cbn [obind]; [|discriminate].
  intros Hm. apply RefLemmas_A1.map_rows_rel in E1.
  destruct (select_rel_fwd _ _ _ _ _ E1 E0) as [t' [H1 R]].
  rewrite H1. apply RefLemmas_A1.rel_map_rows in R. congruence.
Qed.

(* concrete witness that the definedness hypothesis of the converse cannot be dropped *)
Example law_map_slice_conv_needs_definedness :
  let f := fun v => match v with VInt 0 => Ok (VInt 10) | _ => Err (lib EValue) end in
  let d := DList [VInt 0; VInt 1] in
  ixok d = true /\ tbl (DMap f (DSlice [0%nat] d)) = Some [(EmptyString, VInt 10)] /\
  tbl (DSlice [0%nat] (DMap f d)) = None.
Proof. cbv. auto. Qed.

(* ------------------------------------------------------------------------------------------ *)
(* 1. batch(n).unbatch() is the identity on examples (keys are not defined after batch) *)
Lemma firstn_plus {A} a b (l : list A) : firstn (a + b) l = firstn a l ++ firstn b (skipn a l).
Proof.
  revert l. induction a as [|a IH]; intros l; [reflexivity|].
  destruct l as [|x l]; simpl.
  - destruct b; reflexivity.
  - rewrite IH. reflexivity.
Qed.

Lemma concat_windows {A} n (l : list A) k :
  concat (map (fun j => firstn n (skipn (j * n) l)) (seq 0 k)) = firstn (k * n) l.
Proof.
  induction k as [|k IH]; [reflexivity|].
  rewrite seq_S, map_app, concat_app, IH. cbn [map concat plus]. rewrite app_nil_r.
  replace (S k * n)%nat with (k * n + n)%nat by lia. symmetry. apply firstn_plus.
Qed.

Lemma ceil_div_cover n m : (1 <= n)%nat -> (m <= (m + n - 1) / n * n)%nat.
Proof.
  intros Hn.
  pose proof (Nat.div_mod (m + n - 1) n ltac:(lia)) as E.
  pose proof (Nat.mod_upper_bound (m + n - 1) n ltac:(lia)) as U.
  nia.
Qed.

Lemma omapM_seq_elems_VList {A} (h : A -> list val) js :
  omapM seq_elems (map (fun j => VList (h j)) js) = Some (map h js).
Proof. induction js as [|j js IH]; cbn [map omapM]; [reflexivity|]. fold (omapM seq_elems). rewrite IH. reflexivity. Qed.

Lemma unchunk n (l : list val) : (1 <= n)%nat ->
  option_map (@concat _) (omapM seq_elems (ref_chunks n false l)) = Some l.
Proof.
  intros Hn. unfold ref_chunks.
  rewrite (omapM_seq_elems_VList (fun j => firstn n (skipn (j * n) l))).
  cbn [option_map]. rewrite concat_windows. f_equal. apply firstn_all2. apply ceil_div_cover, Hn.
Qed.

Theorem law_batch_unbatch d t n drop : (1 <= n)%nat -> tbl d = Some t -> drop = false ->
  tbl (DUnbatch (DBatch n drop d)) = Some (nokey (vals t)).
Proof.
  intros Hn Ht ->.
  cbn [tbl]. rewrite Ht. destruct (n =? 0)%nat eqn:E; [apply Nat.eqb_eq in E; lia|].
  cbn [option_map obind]. rewrite RefLemmas_A1.vals_nokey.
  pose proof (unchunk n (vals t) Hn) as U.
  destruct (omapM seq_elems (ref_chunks n false (vals t))) as [bs|]; cbn [option_map] in *; [|discriminate].
  congruence.
Qed.

(* ------------------------------------------------------------------------------------------ *)
(* 5. map distributes over batching: batch_map *)
Definition batch_map_fn (f : val -> res val) (b : val) : res val :=
  match b with VList l => do r <- mapM f l; Ok (VList r) | _ => Err (lib EType) end.

Lemma Forall2_firstn {A B} (R : A -> B -> Prop) n l l' :
  Forall2 R l l' -> Forall2 R (firstn n l) (firstn n l').
Proof.
  intros H. revert n. induction H; intros [|n]; simpl; constructor; auto.
Qed.

Lemma Forall2_skipn {A B} (R : A -> B -> Prop) n l l' :
  Forall2 R l l' -> Forall2 R (skipn n l) (skipn n l').
Proof.
  intros H. revert n. induction H; intros [|n]; simpl; try constructor; auto.
Qed.

Lemma Forall2_map_same {A B C} (R : B -> C -> Prop) (h0 : A -> B) (h1 : A -> C) js :
  (forall j, R (h0 j) (h1 j)) -> Forall2 R (map h0 js) (map h1 js).
Proof. intros H. induction js; simpl; constructor; auto. Qed.

Lemma map_rows_nokey g l0 l1 :
  Forall2 (fun a b => g a = Ok b) l0 l1 -> map_rows g (nokey l0) = Some (nokey l1).
Proof.
  intros H. apply RefLemmas_A1.rel_map_rows. unfold nokey.
  induction H; simpl; constructor; auto. split; simpl; auto.
Qed.

Lemma chunks_rel f n drop l0 l1 :
  Forall2 (fun a b => f a = Ok b) l0 l1 ->
  Forall2 (fun a b => batch_map_fn f a = Ok b) (ref_chunks n drop l0) (ref_chunks n drop l1).
Proof.
  intros H. unfold ref_chunks. rewrite <- (RefLemmas_A1.Forall2_len _ _ _ H).
  apply Forall2_map_same. intros j. cbn [batch_map_fn].
  rewrite (RefLemmas_A2.Forall2_mapM f _ (firstn n (skipn (j * n) l1))); [reflexivity|].
  apply Forall2_firstn, Forall2_skipn, H.
Qed.

Theorem law_map_batch f n drop d t : tbl (DBatch n drop (DMap f d)) = Some t ->
  tbl (DMap (batch_map_fn f) (DBatch n drop d)) = Some t.
Proof.
  change (tbl (DBatch n drop (DMap f d))) with
    (if (n =? 0)%nat then None else option_map (fun t => nokey (ref_chunks n drop (vals t))) (obind (tbl d) (map_rows f))).
  change (tbl (DMap (batch_map_fn f) (DBatch n drop d))) with
    (obind (if (n =? 0)%nat then None else option_map (fun t => nokey (ref_chunks n drop (vals t))) (tbl d))
           (map_rows (batch_map_fn f))).
  destruct (n =? 0)%nat; [discriminate|].
  destruct (tbl d) as [t0|]; cbn [obind option_map]; [|discriminate].
  destruct (map_rows f t0) as [t1|] eqn:E1; cbn [option_map]; [|discriminate].
  intros [= <-]. apply map_rows_nokey, chunks_rel, RefLemmas_A1.rel_vals, RefLemmas_A1.map_rows_rel, E1.
Qed.

(* The converse again needs only definedness of the full map: if f raises on some example then
   batch_map_fn f raises on the batch holding it, unless drop_last discards that batch. *)

(* ------------------------------------------------------------------------------------------ *)
(* 9. filter commutes with an order-preserving selection *)
Definition keepb (p : val -> res bool) (kv : key * val) : bool :=
  match p (snd kv) with Ok true => true | _ => false end.

Lemma filter_rows_filter p (t tf : tab) : filter_rows p t = Some tf ->
  tf = filter (keepb p) t /\ Forall (fun kv => exists b, p (snd kv) = Ok b) t.
Proof.
  revert tf. induction t as [|kv t IH]; intros tf; cbn [filter_rows filter].
  - intros [= <-]. split; constructor.
  - unfold keepb at 1. destruct (p (snd kv)) as [[|]|e] eqn:E; [| |discriminate].
    + destruct (filter_rows p t) as [r|]; cbn [option_map]; [|discriminate].
      intros [= <-]. destruct (IH _ eq_refl) as [-> F]. split; [reflexivity|]. constructor; eauto.
    + intros H. destruct (IH _ H) as [-> F]. split; [reflexivity|]. constructor; eauto.
Qed.

Lemma filter_rows_defined p (t : tab) : Forall (fun kv => exists b, p (snd kv) = Ok b) t ->
  filter_rows p t = Some (filter (keepb p) t).
Proof.
  induction 1 as [|kv t [b Hb] F IH]; cbn [filter_rows filter]; [reflexivity|].
  unfold keepb at 1. rewrite Hb, IH. destruct b; reflexivity.
Qed.

Lemma select_S {A} jdx (x : A) r : select (map S jdx) (x :: r) = select jdx r.
Proof. unfold select. rewrite omapM_map. reflexivity. Qed.

Lemma select_cons {A} i idx (l : list A) :
  select (i :: idx) l = obind (nth_error l i) (fun b => obind (select idx l) (fun r => Some (b :: r))).
Proof. reflexivity. Qed.

Lemma sorted_map_S l : StronglySorted lt l -> StronglySorted lt (map S l).
Proof.
  induction 1 as [|a l HS IH F]; simpl; constructor; auto.
  rewrite Forall_map. eapply Forall_impl; [|exact F]. simpl. intros; lia.
Qed.

Lemma all_pos_map_S l : Forall (fun i => 0 < i)%nat l -> StronglySorted lt l ->
  exists j, l = map S j /\ StronglySorted lt j.
Proof.
  induction 1 as [|a l Ha F IH]; intros HS.
  - exists []. split; [reflexivity|constructor].
  - inversion HS as [|? ? S' F']; subst. destruct (IH S') as [j [-> Sj]].
    destruct a as [|a]; [lia|]. exists (a :: j). split; [reflexivity|].
    constructor; auto. rewrite Forall_map in F'. eapply Forall_impl; [|exact F']. simpl. intros; lia.
Qed.

Lemma sorted_shape idx : StronglySorted lt idx ->
  exists j, StronglySorted lt j /\ (idx = map S j \/ idx = 0%nat :: map S j).
Proof.
  intros HS. destruct idx as [|i idx].
  - exists []. split; [constructor|left; reflexivity].
  - inversion HS as [|? ? S' F]; subst. destruct i as [|i].
    + destruct (all_pos_map_S idx F S') as [j [-> Sj]]. exists j. auto.
    + destruct (all_pos_map_S (S i :: idx)) as [j [E Sj]]; auto.
      { constructor; [lia|]. eapply Forall_impl; [|exact F]. simpl. intros; lia. }
      exists j. auto.
Qed.

Lemma filter_select_sorted (q : key * val -> bool) (t : tab) : forall idx t1,
  select idx t = Some t1 -> StronglySorted lt idx ->
  exists idx', StronglySorted lt idx' /\ select idx' (filter q t) = Some (filter q t1).
Proof.
  induction t as [|x r IH]; intros idx t1 Hs HS.
  - destruct idx as [|i idx].
    + injection Hs as <-. exists []. split; [constructor|reflexivity].
    + rewrite select_cons in Hs. destruct i; discriminate.
  - destruct (sorted_shape idx HS) as [j [Sj [->| ->]]].
    + rewrite select_S in Hs. destruct (IH _ _ Hs Sj) as [idx' [S' H']].
      cbn [filter]. destruct (q x).
      * exists (map S idx'). split; [apply sorted_map_S, S'|]. rewrite select_S. exact H'.
      * exists idx'. auto.
    + rewrite select_cons, select_S in Hs. cbn [nth_error obind] in Hs.
      destruct (select j r) as [t1'|] eqn:Ej; cbn [obind] in Hs; [|discriminate].
      injection Hs as <-. destruct (IH _ _ Ej Sj) as [idx' [S' H']].
      cbn [filter]. destruct (q x).
      * exists (0%nat :: map S idx'). split.
        -- constructor; [apply sorted_map_S, S'|]. rewrite Forall_map. apply Forall_forall. intros; lia.
        -- rewrite select_cons, select_S, H'. reflexivity.
      * exists idx'. auto.
Qed.

Theorem law_filter_select p idx (t t1 : tab) : select idx t = Some t1 ->
  StronglySorted lt idx ->
  forall tf, filter_rows p t = Some tf -> exists tf1, filter_rows p t1 = Some tf1 /\
     exists idx', StronglySorted lt idx' /\ select idx' tf = Some tf1.
Proof.
  intros Hs HS tf Hf. destruct (filter_rows_filter _ _ _ Hf) as [-> F].
  exists (filter (keepb p) t1). split.
  - apply filter_rows_defined. rewrite Forall_forall in *. intros kv Hin.
    apply F. eapply RefLemmas_A2.select_In; eauto.
  - eapply filter_select_sorted; eauto.
Qed.

(* ------------------------------------------------------------------------------------------ *)
(* 8. nested slices compose like list slices: selecting with the index array of a Python slice IS
   Python list slicing *)
Lemma omapM_ext_in {A B} (f g : A -> option B) l :
  (forall a, In a l -> f a = g a) -> omapM f l = omapM g l.
Proof.
  induction l as [|a l IH]; intros H; cbn [omapM]; [reflexivity|].
  fold (omapM f l). fold (omapM g l).
  rewrite (H a (or_introl eq_refl)), IH; [reflexivity|]. intros; apply H; right; assumption.
Qed.

Lemma nth_error_skipn' {A} s (l : list A) j : nth_error (skipn s l) j = nth_error l (s + j).
Proof.
  revert l. induction s as [|s IH]; intros l; [reflexivity|].
  destruct l as [|x l]; simpl; [destruct j; reflexivity|apply IH].
Qed.

Lemma nth_error_firstn' {A} m (l : list A) j : (j < m)%nat -> nth_error (firstn m l) j = nth_error l j.
Proof.
  revert l j. induction m as [|m IH]; intros l j H; [lia|].
  destruct l as [|x l]; [reflexivity|]. destruct j as [|j]; simpl; [reflexivity|]. apply IH. lia.
Qed.

Lemma nth_error_rev' {A} (l : list A) j : (j < length l)%nat ->
  nth_error (rev l) j = nth_error l (length l - 1 - j).
Proof.
  induction l as [|x l IH]; intros H; simpl in H; [lia|].
  cbn [rev]. destruct (Nat.eq_dec j (length l)) as [->|Hne].
  - rewrite nth_error_app2 by (rewrite rev_length; lia). rewrite rev_length.
    replace (length l - length l)%nat with 0%nat by lia.
    replace (length (x :: l) - 1 - length l)%nat with 0%nat by (simpl; lia). reflexivity.
  - rewrite nth_error_app1 by (rewrite rev_length; lia). rewrite IH by lia.
    replace (length (x :: l) - 1 - j)%nat with (S (length l - 1 - j)) by (simpl; lia). reflexivity.
Qed.

(* selecting positions h(0..K-1) of l is selecting positions g(0..K-1) of a window W of l *)
Lemma select_via {A} (l W : list A) (h g : nat -> nat) K :
  (forall i, (i < K)%nat -> nth_error l (h i) = nth_error W (g i)) ->
  select (map h (seq 0 K)) l = select (map g (seq 0 K)) W.
Proof.
  intros H. unfold select. rewrite !omapM_map. apply omapM_ext_in.
  intros i Hi. apply in_seq in Hi. apply H. lia.
Qed.

(* every_nth is selection of the multiples of the step; k is characterised as ceil(|W| / s) *)
Lemma every_nth_select {A} s : (1 <= s)%nat -> forall fuel (W : list A) k,
  (length W <= fuel)%nat -> (length W <= k * s)%nat -> (k * s < length W + s)%nat ->
  select (map (fun i => i * s)%nat (seq 0 k)) W = Some (every_nth fuel s W).
Proof.
  intros Hs. induction fuel as [|f IH]; intros W k Hf H1 H2.
  - destruct W; [|simpl in Hf; lia]. simpl in *.
    assert (k = 0)%nat by nia. subst. reflexivity.
  - destruct W as [|x W'].
    + simpl in *. assert (k = 0)%nat by nia. subst. reflexivity.
    + destruct k as [|k']; [simpl in *; lia|].
      cbn [every_nth seq map]. rewrite <- seq_shift, map_map.
      rewrite select_cons. replace (0 * s)%nat with 0%nat by lia. cbn [nth_error obind].
      assert (E : select (map (fun i => (S i * s)%nat) (seq 0 k')) (x :: W')
                  = select (map (fun i => (i * s)%nat) (seq 0 k')) (skipn s (x :: W'))).
      { apply select_via. intros i _. rewrite nth_error_skipn'. f_equal; lia. }
      rewrite E. rewrite (IH (skipn s (x :: W')) k').
      * reflexivity.
      * rewrite skipn_length. cbn [length] in *. lia.
      * rewrite skipn_length. cbn [length] in *. nia.
      * rewrite skipn_length. cbn [length] in *.
        destruct (le_lt_dec s (S (length W'))); [nia|].
        assert (k' = 0)%nat by nia. subst. lia.
Qed.

Lemma clamp_bounds_pos N c o : (0 <= N)%Z -> (0 < c)%Z ->
  (0 <= clamp_start N c o <= N)%Z /\ (0 <= clamp_stop N c o <= N)%Z.
Proof.
  intros HN Hc. unfold clamp_start, clamp_stop. destruct o as [z|];
  repeat match goal with |- context[if ?b then _ else _] => destruct b eqn:? end; lia.
Qed.

Lemma clamp_bounds_neg N c o : (0 <= N)%Z -> (c < 0)%Z ->
  (-1 <= clamp_start N c o <= N - 1)%Z /\ (-1 <= clamp_stop N c o <= N - 1)%Z.
Proof.
  intros HN Hc. unfold clamp_start, clamp_stop. destruct o as [z|];
  repeat match goal with |- context[if ?b then _ else _] => destruct b eqn:? end; lia.
Qed.

(* the number of indices is ceil(window / step) *)
Lemma ceil_spec D c : (0 < c)%Z -> (0 < D)%Z ->
  (D <= ((D - 1) / c + 1) * c < D + c)%Z /\ (0 <= (D - 1) / c)%Z.
Proof.
  intros Hc HD.
  pose proof (Z.div_mod (D - 1) c ltac:(lia)) as E.
  pose proof (Z.mod_pos_bound (D - 1) c Hc) as B.
  assert (0 <= (D - 1) / c)%Z by (apply Z.div_pos; lia).
  split; [|assumption]. nia.
Qed.

Lemma slice_len_pos_spec lo hi c : (0 < c)%Z ->
  (0 <= slice_len lo hi c)%Z /\
  (Z.max 0 (hi - lo) <= slice_len lo hi c * c < Z.max 0 (hi - lo) + c)%Z.
Proof.
  intros Hc. unfold slice_len. destruct (c <? 0)%Z eqn:E1; [lia|].
  destruct (lo <? hi)%Z eqn:E2; [|lia].
  destruct (ceil_spec (hi - lo) c Hc ltac:(lia)) as [B P].
  replace (Z.max 0 (hi - lo)) with (hi - lo)%Z by lia. lia.
Qed.

Lemma slice_len_neg_spec lo hi c : (c < 0)%Z ->
  (0 <= slice_len lo hi c)%Z /\
  (Z.max 0 (lo - hi) <= slice_len lo hi c * (- c) < Z.max 0 (lo - hi) + (- c))%Z.
Proof.
  intros Hc. unfold slice_len. destruct (c <? 0)%Z eqn:E1; [|lia].
  destruct (hi <? lo)%Z eqn:E2; [|lia].
  destruct (ceil_spec (lo - hi) (- c) ltac:(lia) ltac:(lia)) as [B P].
  replace (Z.max 0 (lo - hi)) with (lo - hi)%Z by lia. lia.
Qed.

Theorem slice_is_list_slice {A} (l : list A) a b c idx : c <> 0%Z ->
  slice_indices (length l) a b (Some c) = Ok idx -> select idx l = Some (py_list_slice l a b c).
Proof.
  intros Hc H. unfold slice_indices in H.
  destruct (c =? 0)%Z eqn:Ec; [lia|]. injection H as <-.
  unfold py_list_slice.
  set (N := Z.of_nat (length l)) in *.
  set (lo := clamp_start N c a). set (hi := clamp_stop N c b).
  set (K := Z.to_nat (slice_len lo hi c)).
  assert (HN : (0 <= N)%Z) by (unfold N; lia).
  destruct (0 <? c)%Z eqn:Epos.
  - (* positive step *)
    assert (Hc0 : (0 < c)%Z) by lia.
    destruct (clamp_bounds_pos N c a HN Hc0) as [Blo _].
    destruct (clamp_bounds_pos N c b HN Hc0) as [_ Bhi].
    fold lo in Blo. fold hi in Bhi.
    destruct (slice_len_pos_spec lo hi c Hc0) as [SL0 SLP].
    set (s := Z.to_nat c).
    set (W := firstn (Z.to_nat (hi - lo)) (skipn (Z.to_nat lo) l)).
    assert (ELW : Z.of_nat (length W) = Z.max 0 (hi - lo)).
    { unfold W. rewrite firstn_length, skipn_length. unfold N in *. lia. }
    assert (EKs : Z.of_nat (K * s) = (slice_len lo hi c * c)%Z).
    { rewrite Nat2Z.inj_mul. unfold K, s. rewrite !Z2Nat.id by lia. reflexivity. }
    assert (Es : Z.of_nat s = c) by (unfold s; lia).
    assert (H1 : (length W <= K * s)%nat) by (apply Nat2Z.inj_le; rewrite EKs, ELW; lia).
    assert (H2 : (K * s < length W + s)%nat).
    { apply Nat2Z.inj_lt. rewrite Nat2Z.inj_add, EKs, ELW, Es. lia. }
    assert (H0 : (length W <= length l)%nat).
    { unfold W. rewrite firstn_length, skipn_length. lia. }
    rewrite <- (every_nth_select s ltac:(lia) (length l) W K H0 H1 H2).
    apply select_via. intros i Hi.
    assert (Hi2 : (i * s < length W)%nat) by nia.
    unfold W. rewrite nth_error_firstn'.
    2:{ unfold W in Hi2. rewrite firstn_length in Hi2. lia. }
    rewrite nth_error_skipn'. f_equal.
    apply Nat2Z.inj. rewrite Nat2Z.inj_add, Nat2Z.inj_mul, Es.
    rewrite !Z2Nat.id; [lia|lia|].
    assert (0 <= Z.of_nat i * c)%Z by (apply Z.mul_nonneg_nonneg; lia). lia.
  - (* negative step *)
    assert (Hc0 : (c < 0)%Z) by lia.
    destruct (clamp_bounds_neg N c a HN Hc0) as [Blo _].
    destruct (clamp_bounds_neg N c b HN Hc0) as [_ Bhi].
    fold lo in Blo. fold hi in Bhi.
    destruct (slice_len_neg_spec lo hi c Hc0) as [SL0 SLP].
    set (s := Z.to_nat (- c)).
    set (W := firstn (Z.to_nat (lo - hi)) (skipn (Z.to_nat (hi + 1)) l)).
    assert (ELW : Z.of_nat (length W) = Z.max 0 (lo - hi)).
    { unfold W. rewrite firstn_length, skipn_length. unfold N in *. lia. }
    assert (EKs : Z.of_nat (K * s) = (slice_len lo hi c * (- c))%Z).
    { rewrite Nat2Z.inj_mul. unfold K, s. rewrite !Z2Nat.id by lia. reflexivity. }
    assert (Es : Z.of_nat s = (- c)%Z) by (unfold s; lia).
    assert (H1 : (length (rev W) <= K * s)%nat).
    { rewrite rev_length. apply Nat2Z.inj_le; rewrite EKs, ELW; lia. }
    assert (H2 : (K * s < length (rev W) + s)%nat).
    { rewrite rev_length. apply Nat2Z.inj_lt. rewrite Nat2Z.inj_add, EKs, ELW, Es. lia. }
    assert (H0 : (length (rev W) <= length l)%nat).
    { rewrite rev_length. unfold W. rewrite firstn_length, skipn_length. lia. }
    rewrite <- (every_nth_select s ltac:(lia) (length l) (rev W) K H0 H1 H2).
    apply select_via. intros i Hi.
    rewrite rev_length in *.
    assert (Hi2 : (i * s < length W)%nat) by nia.
    rewrite nth_error_rev' by exact Hi2.
    assert (Eis : Z.of_nat (i * s) = (- (Z.of_nat i * c))%Z).
    { rewrite Nat2Z.inj_mul, Es. ring. }
    unfold W at 1. rewrite nth_error_firstn'.
    2:{ pose proof Hi2 as Hi3. unfold W in Hi3. rewrite firstn_length in Hi3. lia. }
    rewrite nth_error_skipn'. f_equal.
    apply Nat2Z.inj. rewrite Z2Nat.id by lia. lia.
Qed.

Corollary law_nested_slices d t a1 b1 c1 a2 b2 c2 i1 i2 : ixok d = true -> tbl d = Some t ->
  c1 <> 0%Z -> c2 <> 0%Z ->
  slice_indices (length t) a1 b1 (Some c1) = Ok i1 ->
  slice_indices (length i1) a2 b2 (Some c2) = Ok i2 ->
  tbl (DSlice i2 (DSlice i1 d)) = Some (py_list_slice (py_list_slice t a1 b1 c1) a2 b2 c2).
Proof.
  intros X Ht Hc1 Hc2 S1 S2.
  pose proof (slice_is_list_slice t a1 b1 c1 i1 Hc1 S1) as E1.
  rewrite <- (RefLemmas_A2.select_length _ _ _ E1) in S2.
  pose proof (slice_is_list_slice _ a2 b2 c2 i2 Hc2 S2) as E2.
  destruct (RefLemmas_A2.ixok_split d X) as [_ Kd].
  change (tbl (DSlice i2 (DSlice i1 d))) with
    (if ixok (DSlice i1 d) then obind (if ixok d then obind (tbl d) (select i1) else None) (select i2) else None).
  assert (X1 : ixok (DSlice i1 d) = true) by (unfold ixok; simpl; exact Kd).
  rewrite X1, X, Ht. cbn [obind]. rewrite E1. cbn [obind]. exact E2.
Qed.

(* ------------------------------------------------------------------------------------------ *)
Print Assumptions same_tbl_same_obs.
Print Assumptions law_batch_unbatch.
Print Assumptions law_map_map.
Print Assumptions law_map_slice.
Print Assumptions law_map_slice_conv.
Print Assumptions law_map_concat.
Print Assumptions law_map_batch.
Print Assumptions law_map_cache.
Print Assumptions law_map_cache_strong.
Print Assumptions law_tile.
Print Assumptions slice_is_list_slice.
Print Assumptions law_nested_slices.
Print Assumptions law_filter_select.
