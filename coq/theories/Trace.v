(* Trace.v - Model B: WHEN user functions run.  An iteration is a stream of segments: element j paired with
   exactly the events its production caused (everything that happens inside the j-th next() call), plus the
   events of the terminating next() call.  Events: `App id arg` = the user function of stage id is applied to arg,
   `Fetch id` = stage id hands one element to its consumer (what ProfilingDataset counts as a hit),
   `Fail id` = a fetch from stage id raised (BatchDataset.__getitem__ probing past the end).
   Stages carry unique ids.  Definitions only; proofs in TraceProofs.v. *)
From Coq Require Import String.
From Coq Require Import List Arith ZArith Bool Lia.
Require Import LD.Base.
Import ListNotations.
Local Open Scope nat_scope.

Inductive ev := Fetch (id : nat) | App (id : nat) (arg : val) | Fail (id : nat).
Definition seg := (list ev * val)%type.
Definition stream := (list seg * list ev)%type.

Inductive lds :=
| LSrc (id : nat) (vs : list val)
| LMap (id : nat) (f : val -> val) (d : lds)
| LFilter (id : nat) (p : val -> bool) (d : lds)
| LBatch (id : nat) (n : nat) (d : lds)              (* drop_last = False, n >= 1 *)
| LUnbatch (id : nat) (d : lds)
| LConcat (id : nat) (a b : lds)
| LZip (id : nat) (a b : lds)
| LSlice (id : nat) (idx : list nat) (d : lds).      (* iterates by indexing its input *)

Definition elems (v : val) : list val := match v with VList b | VTup b => b | _ => [] end.

(* ---- eager reference values ---- *)
Fixpoint chunk (fuel n : nat) (l : list val) : list val :=
  match fuel with
  | O => []
  | S f => match l with [] => [] | _ => VList (firstn n l) :: chunk f n (skipn n l) end
  end.
Fixpoint lref (d : lds) : list val :=
  match d with
  | LSrc _ vs => vs
  | LMap _ f d => map f (lref d)
  | LFilter _ p d => filter p (lref d)
  | LBatch _ n d => chunk (length (lref d)) (Nat.max n 1) (lref d)
  | LUnbatch _ d => flat_map elems (lref d)
  | LConcat _ a b => lref a ++ lref b
  | LZip _ a b => map (fun p => VTup [fst p; snd p]) (combine (lref a) (lref b))
  | LSlice _ idx d => flat_map (fun i => match nth_error (lref d) i with Some v => [v] | None => [] end) idx
  end.

(* ---- random access with events: None = IndexError / not indexable ---- *)
Fixpoint fail_path (d : lds) : list ev :=       (* the failed fetches an out-of-range index causes, outermost last *)
  match d with
  | LSrc id _ => [Fail id]
  | LMap id _ d' => fail_path d' ++ [Fail id]
  | LFilter id _ _ | LUnbatch id _ => [Fail id]
  | LBatch id _ d' => fail_path d' ++ [Fail id]
  | LConcat id _ b => [Fail id]
  | LZip id a _ => fail_path a ++ [Fail id]
  | LSlice id _ _ => [Fail id]
  end.
Fixpoint batch_get (get : nat -> option seg) (fails : list ev) (start k : nat) (first : bool) : option (list ev * list val) :=
  match k with
  | O => Some ([], [])
  | S k' => match get start with
            | Some (e, v) => match batch_get get fails (S start) k' false with
                             | Some (es, vs) => Some (e ++ es, v :: vs)
                             | None => None
                             end
            | None => if first then None
                      else match batch_get get fails (S start) k' false with      (* IndexError swallowed, keeps probing *)
                           | Some (es, vs) => Some (fails ++ es, vs)
                           | None => None
                           end
            end
  end.
Fixpoint get_s (d : lds) (i : nat) : option seg :=
  match d with
  | LSrc id vs => match nth_error vs i with Some v => Some ([Fetch id], v) | None => None end
  | LMap id f d' => match get_s d' i with Some (e, v) => Some (e ++ [App id v; Fetch id], f v) | None => None end
  | LFilter _ _ _ | LUnbatch _ _ => None
  | LBatch id n d' =>
      let n' := Nat.max n 1 in
      match batch_get (get_s d') (fail_path d') (i * n') n' true with
      | Some (es, vs) => Some (es ++ [Fetch id], VList vs)
      | None => None
      end
  | LConcat id a b =>
      let la := length (lref a) in
      match (if i <? la then get_s a i else get_s b (i - la)) with
      | Some (e, v) => Some (e ++ [Fetch id], v)
      | None => None
      end
  | LZip id a b =>
      match get_s a i, get_s b i with
      | Some (ea, va), Some (eb, vb) => Some (ea ++ eb ++ [Fetch id], VTup [va; vb])
      | _, _ => None
      end
  | LSlice id idx d' =>
      match nth_error idx i with
      | Some j => match get_s d' j with Some (e, v) => Some (e ++ [Fetch id], v) | None => None end
      | None => None
      end
  end.

(* ---- iteration with events ---- *)
Fixpoint filter_segs (id : nat) (p : val -> bool) (pending : list ev) (l : list seg) : list seg * list ev :=
  match l with
  | [] => ([], pending)
  | (e, v) :: r =>
      if p v then let '(o, f) := filter_segs id p [] r in ((pending ++ e ++ [App id v; Fetch id], v) :: o, f)
      else filter_segs id p (pending ++ e ++ [App id v]) r
  end.
Fixpoint batch_segs (id n : nat) (ce : list ev) (cv : list val) (l : list seg) (fin : list ev) : list seg * list ev :=
  match l with
  | [] => match cv with
          | [] => ([], ce ++ fin)
          | _ => ([(ce ++ fin ++ [Fetch id], VList cv)], [])      (* the partial batch is yielded after the input ended *)
          end
  | (e, v) :: r =>
      if n <=? S (length cv)
      then let '(o, f) := batch_segs id n [] [] r fin in ((ce ++ e ++ [Fetch id], VList (cv ++ [v])) :: o, f)
      else batch_segs id n (ce ++ e) (cv ++ [v]) r fin
  end.
Fixpoint spread (id : nat) (e : list ev) (b : list val) : list seg :=
  match b with
  | [] => []
  | x :: r => (e ++ [Fetch id], x) :: spread id [] r
  end.
Fixpoint unbatch_segs (id : nat) (pending : list ev) (l : list seg) : list seg * list ev :=
  match l with
  | [] => ([], pending)
  | (e, v) :: r =>
      match elems v with
      | [] => unbatch_segs id (pending ++ e) r
      | b => let '(o, f) := unbatch_segs id [] r in (spread id (pending ++ e) b ++ o, f)
      end
  end.
Definition tag_fetch (id : nat) (s : seg) : seg := (fst s ++ [Fetch id], snd s).
Fixpoint zip_segs (id : nat) (la lb : list seg) (fa fb : list ev) : list seg * list ev :=
  match la with
  | [] => ([], fa)                                  (* next(a) ends first: b is not asked again *)
  | (ea, va) :: ra =>
      match lb with
      | [] => ([], ea ++ fb)
      | (eb, vb) :: rb => let '(o, f) := zip_segs id ra rb fa fb in ((ea ++ eb ++ [Fetch id], VTup [va; vb]) :: o, f)
      end
  end.
Fixpoint slice_segs (id : nat) (get : nat -> option seg) (idx : list nat) : list seg :=
  match idx with
  | [] => []
  | i :: r => match get i with
              | Some (e, v) => (e ++ [Fetch id], v) :: slice_segs id get r
              | None => []
              end
  end.

Fixpoint iter_s (d : lds) : stream :=
  match d with
  | LSrc id vs => (map (fun v => ([Fetch id], v)) vs, [])
  | LMap id f d' => let '(l, fin) := iter_s d' in (map (fun s => (fst s ++ [App id (snd s); Fetch id], f (snd s))) l, fin)
  | LFilter id p d' => let '(l, fin) := iter_s d' in let '(o, pend) := filter_segs id p [] l in (o, pend ++ fin)
  | LBatch id n d' => let '(l, fin) := iter_s d' in batch_segs id (Nat.max n 1) [] [] l fin
  | LUnbatch id d' => let '(l, fin) := iter_s d' in let '(o, pend) := unbatch_segs id [] l in (o, pend ++ fin)
  | LConcat id a b =>
      let '(la, fa) := iter_s a in let '(lb, fb) := iter_s b in
      match lb with
      | [] => (map (tag_fetch id) la, fa ++ fb)
      | (e, v) :: r => (map (tag_fetch id) la ++ (fa ++ e ++ [Fetch id], v) :: map (tag_fetch id) r, fb)
      end
  | LZip id a b => let '(la, fa) := iter_s a in let '(lb, fb) := iter_s b in zip_segs id la lb fa fb
  | LSlice id idx d' => (slice_segs id (get_s d') idx, [])
  end.

(* ---- observers ---- *)
Definition all_events (s : stream) : list ev := concat (map fst (fst s)) ++ snd s.
Definition events_upto (k : nat) (s : stream) : list ev := concat (map fst (firstn k (fst s))).
Definition values (s : stream) : list val := map snd (fst s).
Definition is_app (id : nat) (e : ev) : bool := match e with App i _ => Nat.eqb i id | _ => false end.
Definition apps_of (id : nat) (l : list ev) : list val :=
  flat_map (fun e => match e with App i a => if Nat.eqb i id then [a] else [] | _ => [] end) l.
Definition fetches_of (id : nat) (l : list ev) : nat :=
  length (filter (fun e => match e with Fetch i => Nat.eqb i id | _ => false end) l).
Definition fails_of (id : nat) (l : list ev) : nat :=
  length (filter (fun e => match e with Fail i => Nat.eqb i id | _ => false end) l).

Fixpoint ids_of (d : lds) : list nat :=
  match d with
  | LSrc id _ => [id]
  | LMap id _ d' | LFilter id _ d' | LBatch id _ d' | LUnbatch id d' | LSlice id _ d' => id :: ids_of d'
  | LConcat id a b | LZip id a b => id :: ids_of a ++ ids_of b
  end.
(* pipelines that only iterate (no index-driven stage) *)
Fixpoint iter_only (d : lds) : bool :=
  match d with
  | LSrc _ _ => true
  | LMap _ _ d' | LFilter _ _ d' | LBatch _ _ d' | LUnbatch _ d' => iter_only d'
  | LConcat _ a b | LZip _ a b => iter_only a && iter_only b
  | LSlice _ _ _ => false
  end.
