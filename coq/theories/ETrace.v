(* ETrace.v - trace validation for Model E: a schedule-driven run of the REAL parallel_utils code
   is logged by the harness as a sequence of (thread, observation after the step); these functions
   replay the thread sequence on the model and report the first step at which the model is not
   enabled or its observable state differs. *)
From Coq Require Import List Arith Bool Lia.
Import ListNotations.
Require LD.PrefetchST LD.Pool.

Module ST.
  Import LD.PrefetchST.
  (* |q|, pulled, |delivered| *)
  Definition obs := (nat * nat * nat)%type.
  Definition obs_of (s : st) : obs := (length (q s), pulled s, length (delivered s)).
  Definition obs_eqb (a b : obs) : bool :=
    let '(a1, a2, a3) := a in let '(b1, b2, b3) := b in (a1 =? b1) && (a2 =? b2) && (a3 =? b3).
  (* result: None = whole trace accepted, Some (i, what the model has) *)
  Fixpoint replay (B : nat) (K : option nat) (cb : bool) (s : st) (tr : list (tid * option obs)) (i : nat)
    : st * option (nat * option obs) :=
    match tr with
    | [] => (s, None)
    | (t, o) :: r =>
        match step B K cb s t with
        | None => (s, Some (i, None))
        | Some s' =>
            match o with
            | Some o' => if obs_eqb (obs_of s') o' then replay B K cb s' r (S i) else (s', Some (i, Some (obs_of s')))
            | None => replay B K cb s' r (S i)
            end
        end
    end.
  (* final summary compared by the harness: delivered, exc recorded, closing, consumer ended, worker ended *)
  Definition cp_code (c : cpc) : nat :=
    match c with C0 => 0 | C1 => 1 | C2 _ => 2 | C3 => 3 | C4 => 4 | C5 => 5 | C6 => 6 | C7 => 7 | CEnd => 8 end.
  Definition wp_end (w : wpc) : bool := match w with WEnd => true | _ => false end.
  Definition summary (s : st) := (delivered s, exc s, closing s, cp_code (cp s), wp_end (wp s), died s).
  Definition run_case (B : nat) (K : option nat) (cb : bool) (src0 : list sev) (tr : list (tid * option obs)) :=
    let '(s, m) := replay B K cb (init src0) tr 0 in (m, summary s).
End ST.

Module PL.
  Import LD.Pool.
  (* |tasks|, pulled, |delivered|, running, done-or-cancelled *)
  Definition obs := (nat * nat * nat * nat * nat)%type.
  Definition n_fin (l : list task) : nat :=
    length (filter (fun t => match tst t with Done _ | Cancelled => true | _ => false end) l).
  Definition obs_of (s : st) : obs :=
    (length (tasks s), pulled s, length (delivered s), n_running (tasks s), n_fin (tasks s)).
  Definition obs_eqb (a b : obs) : bool :=
    let '(a1, a2, a3, a4, a5) := a in let '(b1, b2, b3, b4, b5) := b in
    (a1 =? b1) && (a2 =? b2) && (a3 =? b3) && (a4 =? b4) && (a5 =? b5).
  Fixpoint replay (B W : nat) (K : option nat) (fn : nat -> tres) (s : st) (tr : list (tid * option obs)) (i : nat)
    : st * option (nat * option obs) :=
    match tr with
    | [] => (s, None)
    | (t, o) :: r =>
        match step B W K fn s t with
        | None => (s, Some (i, None))
        | Some s' =>
            match o with
            | Some o' => if obs_eqb (obs_of s') o' then replay B W K fn s' r (S i) else (s', Some (i, Some (obs_of s')))
            | None => replay B W K fn s' r (S i)
            end
        end
    end.
  Definition n_cancelled (l : list task) : nat :=
    length (filter (fun t => match tst t with Cancelled => true | _ => false end) l).
  Definition summary (s : st) := (delivered s, pc s, n_cancelled (tasks s), quiescent (tasks s)).
  Definition run_case (B W : nat) (K : option nat) (fn : nat -> tres) (src0 : list sev) (tr : list (tid * option obs)) :=
    let '(s, m) := replay B W K fn (init src0) tr 0 in (m, summary s).
  (* function table for the tie: fails (with tag v) on arguments in `bad`, else 10 * v + 1 *)
  Definition fn_of (bad : list nat) (v : nat) : tres :=
    if existsb (Nat.eqb v) bad then RErr v else ROk (10 * v + 1).
End PL.
