(* LocalIter.v - Model F, part 2b: the iterators of a buffer-local shuffle as a step machine.
   `LocalShuffleDataset.__iter__` is a generator with a buffer of its own:
       for element in input: buffer.append(element)
                             if len(buffer) >= buffer_size: yield buffer.pop(rng.choice(buffer_size))
       rng.shuffle(buffer); yield from buffer
   Part 2 of Shuffle.v describes one complete pass as a function (local_shuffle).  Here every next() of every iterator in
   flight is a step, so that histories with several iterators - started at different times, advanced in any order - can be
   stated: each iterator owns `rest` (what it has not read yet), `buf`, `tail` (the shuffled left-overs once the input is
   exhausted) and `out`.  The generator is an oracle: a step carries the value `rng.choice` would return and, for the
   final shuffle, a permutation for every possible buffer length.
   `lstep_shared` is the variant with ONE buffer per dataset object (the seeded changes C12 / C12i): refuted by a witness.
   Definitions only; proofs in LocalIterProofs.v. *)
From Coq Require Import List Arith Bool Lia Permutation.
Require Import LD.Shuffle LD.ShuffleFreeze.
Import ListNotations.

Record liter := mkLI { lrest : list nat; lbuf : list nat; ltail : option (list nat); lout : list nat }.

Inductive lop :=
| LStart                                   (* iter(ds): a new iterator; nothing is read before its first next() *)
| LNext (it : nat) (c : nat) (sigma : nat -> list nat).
                                           (* next(iterator it); c = what rng.choice(buffer_size) returns if this step pops,
                                              sigma n = the order rng.shuffle gives a buffer of n elements if this step reaches the end *)

(* read input into the buffer until it holds B elements (then one is popped) or the input is exhausted *)
Fixpoint fill (B : nat) (buf rest : list nat) : list nat * list nat :=
  match rest with
  | [] => (buf, [])
  | x :: r => let buf' := buf ++ [x] in if B <=? length buf' then (buf', r) else fill B buf' r
  end.

Definition lnext (B : nat) (s : liter) (c : nat) (sigma : nat -> list nat) : liter :=
  match ltail s with
  | Some [] => s                                                   (* exhausted: StopIteration *)
  | Some (x :: t) => mkLI (lrest s) (lbuf s) (Some t) (lout s ++ [x])
  | None =>
      let '(buf, rest) := fill B (lbuf s) (lrest s) in
      if B <=? length buf
      then match nth_error buf c with
           | Some y => mkLI rest (remove_at buf c) None (lout s ++ [y])
           | None => s                                             (* choice out of range: excluded by c < B *)
           end
      else (* input exhausted: shuffle what is left, then yield from it *)
        match apply_perm (sigma (length buf)) buf with
        | [] => mkLI [] [] (Some []) (lout s)
        | x :: t => mkLI [] [] (Some t) (lout s ++ [x])
        end
  end.

Definition lstep (B : nat) (xs : list nat) (s : list liter) (o : lop) : list liter :=
  match o with
  | LStart => s ++ [mkLI xs [] None []]
  | LNext it c sigma => match nth_error s it with Some st => upd s it (lnext B st c sigma) | None => s end
  end.
Definition lrun (B : nat) (xs : list nat) (ops : list lop) : list liter := fold_left (lstep B xs) ops [].

Definition lop_ok (B : nat) (o : lop) : Prop :=
  match o with LStart => True | LNext _ c sigma => c < B /\ forall n, Permutation (sigma n) (seq 0 n) end.

(* what an iterator still has to deliver *)
Definition lpending (s : liter) : list nat :=
  match ltail s with Some t => t | None => lbuf s ++ lrest s end.
Definition lexhausted (s : liter) : Prop := ltail s = Some [].

(* ---- the variant with one buffer per dataset object, shared by all its iterators ---- *)
Record lshared := mkLS { sbuf : list nat; siters : list (list nat * option (list nat) * list nat) }.   (* per iterator: rest, tail, out *)
Definition lstep_shared (B : nat) (xs : list nat) (s : lshared) (o : lop) : lshared :=
  match o with
  | LStart => mkLS (sbuf s) (siters s ++ [(xs, None, [])])
  | LNext it c sigma =>
      match nth_error (siters s) it with
      | None => s
      | Some (rest, tl_, out) =>
          let st := lnext B (mkLI rest (sbuf s) tl_ out) c sigma in
          mkLS (lbuf st) (upd (siters s) it (lrest st, ltail st, lout st))
      end
  end.
Definition lrun_shared (B : nat) (xs : list nat) (ops : list lop) : lshared := fold_left (lstep_shared B xs) ops (mkLS [] []).

(* ---- correspondence: a history and what every iterator of the implementation yielded ---- *)
Definition licase := (nat * list nat * list lop * list (list nat))%type.
Definition licase_ok (c : licase) : bool :=
  let '(B, xs, ops, exp) := c in
  let s := lrun B xs ops in
  (length s =? length exp) && forallb (fun p => list_eqb_nat (lout (fst p)) (snd p)) (combine s exp).
Fixpoint libad (j : nat) (cs : list licase) : list nat :=
  match cs with [] => [] | c :: r => if licase_ok c then libad (S j) r else j :: libad (S j) r end.
