(* Pipeline.v - Model A: the stage classes of lazy_dataset/core.py as a deep embedding.
   One observer per Python method, following that method's code path:
     iter_ wk d   <->  d.__iter__(with_key=wk) run to its end
     get_i d i    <->  d[i]   (i an int of either sign / np.integer)
     get_k d k    <->  d[k]   (k a str)
     len_ d, keys_ d, indexable d, ordered d
   Definitions only; proofs live in PipelineProofs*.v.
   The model follows the code as it is written *after* the `fix:` commits listed in
   /verif/KNOWN_FINDINGS.txt (each of them was first reported by the tie as a disagreement). *)
From Coq Require Import String.
From Coq Require Import List Arith ZArith Bool Lia.
Require Import LD.Base LD.PySlice.
Import ListNotations.
Open Scope Z_scope.

Inductive ds :=
| DList (vs : list val)                              (* from_list, pickle / copy mode *)
| DListWu (vs : list val)                            (* from_list(..., 'wu') : NumpySerializedList *)
| DDict (kvs : list (key * val))                     (* from_dict *)
| DMap (f : val -> res val) (d : ds)
| DParMap (f : val -> res val) (w b : nat) (d : ds)  (* map(fn, num_workers=w, buffer_size=b) *)
| DFilter (p : val -> res bool) (d : ds)
| DCatch (E : list ecls) (d : ds)
| DPrefetch (w b : nat) (E : option (list ecls)) (d : ds)
| DSlice (idx : list nat) (d : ds)                   (* the normalised index array `self.slice` *)
| DConcat (l : list ds)
| DIntersperse (order : list (nat * nat)) (l : list ds)   (* (dataset_idx, example_idx) *)
| DZip (l : list ds)
| DKeyZip (l : list ds)
| DItems (d : ds)
| DBatch (n : nat) (drop : bool) (d : ds)
| DUnbatch (d : ds)
| DCycle (d : ds)
| DCache (d : ds).

(* ------------------------------------------------------------------ flags *)
Fixpoint indexable (d : ds) : bool :=
  match d with
  | DList _ | DListWu _ | DDict _ => true
  | DMap _ d | DParMap _ _ _ d => indexable d
  | DFilter _ _ | DCatch _ _ | DPrefetch _ _ _ _ | DUnbatch _ => false
  | DSlice _ _ => true
  | DConcat l | DIntersperse _ l | DZip l | DKeyZip l => forallb indexable l
  | DItems d | DBatch _ _ d | DCycle d | DCache d => indexable d
  end.

Fixpoint ordered (d : ds) : bool :=
  match d with
  | DList _ | DListWu _ | DDict _ => true
  | DMap _ d | DParMap _ _ _ d | DFilter _ d | DCatch _ d | DPrefetch _ _ _ d
  | DSlice _ d | DItems d | DBatch _ _ d | DUnbatch d | DCycle d | DCache d => ordered d
  | DConcat l | DIntersperse _ l | DZip l => forallb ordered l
  | DKeyZip _ => true
  end.

(* ------------------------------------------------------------------ __len__ *)
Fixpoint sum_res (l : list (res nat)) : res nat :=
  match l with
  | [] => Ok 0%nat
  | r :: t => do a <- r; do b <- sum_res t; Ok (a + b)%nat
  end.

Fixpoint len_ (d : ds) : res nat :=
  match d with
  | DList vs | DListWu vs => Ok (length vs)
  | DDict kvs => Ok (length kvs)
  | DMap _ d | DParMap _ _ _ d | DItems d | DCache d => len_ d
  | DFilter _ _ | DCatch _ _ | DUnbatch _ | DCycle _ => Err (lib EType)
  | DPrefetch _ _ E d => match E with Some _ => Err (lib EType) | None => len_ d end
  | DSlice idx _ => Ok (length idx)
  | DConcat l => sum_res (map len_ l)
  | DIntersperse order _ => Ok (length order)
  | DZip l | DKeyZip l => match l with d0 :: _ => len_ d0 | [] => Err (lib EIndex) end
  | DBatch n drop d =>
      do m <- len_ d;
      if (n =? 0)%nat then Err (lib EZeroDiv)
      else Ok (if drop then m / n else (m + n - 1) / n)%nat
  end.

(* ------------------------------------------------------------------ keys() *)
Definition nth_key (ks : list key) (j : nat) : res key :=
  match nth_error ks j with Some k => Ok k | None => Err (lib EIndex) end.

Definition unique_keys (ks : list key) : res (list key) :=
  if nodupb ks then Ok ks else Err (lib EAssert).

Fixpoint keys_ (d : ds) : res (list key) :=
  match d with
  | DList _ | DListWu _ => Err (lib ENotImpl)
  | DDict kvs => Ok (map fst kvs)
  | DMap _ d | DParMap _ _ _ d | DItems d | DCycle d | DCache d => keys_ d
  | DFilter _ _ | DCatch _ _ | DPrefetch _ _ _ _ | DZip _ | DBatch _ _ _ | DUnbatch _ => Err (lib ENotImpl)
  | DSlice idx d => do ks <- keys_ d; mapM (nth_key ks) idx
  | DConcat l => do kss <- mapM keys_ l; unique_keys (concat kss)
  | DIntersperse order l =>
      do kss <- mapM keys_ l;
      do ks <- mapM (fun '(di, ei) => match nth_error kss di with
                                      | Some ks => nth_key ks ei
                                      | None => Err (lib EIndex) end) order;
      unique_keys ks
  | DKeyZip l => match l with d0 :: _ => keys_ d0 | [] => Err (lib EIndex) end
  end.

(* ------------------------------------------------------------------ __getitem__ *)
(* BatchDataset.__getitem__: probe input[i*n + j], swallowing IndexError after the first element *)
Fixpoint batch_collect (get : Z -> res val) (start : Z) (k : nat) (first drop : bool) : res (list val) :=
  match k with
  | O => Ok []
  | S k' =>
      match get start with
      | Ok v => do r <- batch_collect get (start + 1) k' false drop; Ok (v :: r)
      | Err e => if isa (ecl e) EIndex
                 then (if first || drop then Err e else batch_collect get (start + 1) k' false drop)
                 else Err e
      end
  end.

Definition lookup (k : key) (kvs : list (key * val)) : res val :=
  match find (fun kv => String.eqb k (fst kv)) kvs with
  | Some kv => Ok (snd kv)
  | None => Err (lib EKey)
  end.

Definition norm_neg (i : Z) (n : res nat) : res Z :=
  if i <? 0 then (do m <- n; let j := i + Z.of_nat m in if j <? 0 then Err (lib EIndex) else Ok j)
  else Ok i.

Section GetFix.
  (* get_i and get_k are mutually recursive (KeyZip / Items / Cache cross over) *)
  Fixpoint get_i (d : ds) (i : Z) {struct d} : res val :=
    match d with
    | DList vs | DListWu vs => py_nth vs i
    | DDict kvs => py_nth (map snd kvs) i
    | DMap f d | DParMap f _ _ d => bind (get_i d i) f
    | DFilter _ _ => Err (lib EAssert)
    | DCatch _ _ | DPrefetch _ _ _ _ | DUnbatch _ => Err (lib ENotImpl)
    | DSlice idx d => do j <- py_nth idx i; get_i d (Z.of_nat j)
    | DConcat l =>
        do j <- norm_neg i (sum_res (map len_ l));
        (fix walk (l : list ds) (j : Z) : res val :=
           match l with
           | [] => Err (lib EIndex)
           | d :: t => do m <- len_ d;
                       if Z.of_nat m <=? j then walk t (j - Z.of_nat m) else get_i d j
           end) l j
    | DIntersperse order l =>
        do de <- py_nth order i;
        (fix pick (l : list ds) (di : nat) : res val :=
           match l, di with
           | [], _ => Err (lib EIndex)
           | d :: _, O => get_i d (Z.of_nat (snd de))
           | _ :: t, S di' => pick t di'
           end) l (fst de)
    | DZip l =>
        do vs <- (fix go (l : list ds) : res (list val) :=
                    match l with [] => Ok [] | d :: t => do v <- get_i d i; do r <- go t; Ok (v :: r) end) l;
        Ok (VTup vs)
    | DKeyZip l =>
        do ks <- keys_ (DKeyZip l);
        do k <- py_nth ks i;
        do vs <- (fix go (l : list ds) : res (list val) :=
                    match l with [] => Ok [] | d :: t => do v <- get_k d k; do r <- go t; Ok (v :: r) end) l;
        Ok (VTup vs)
    | DItems d => do ks <- keys_ d; do k <- py_nth ks i; do v <- get_i d i; Ok (pair_of k v)
    | DBatch n drop d =>
        do j <- norm_neg i (len_ (DBatch n drop d));
        do b <- batch_collect (get_i d) (j * Z.of_nat n) n true drop;
        Ok (VList b)
    | DCycle d =>
        do m <- len_ d;
        if ordered d || (Z.of_nat m <? i) then
          (if (m =? 0)%nat then Err (lib EZeroDiv) else get_i d (i mod Z.of_nat m))
        else Err (lib ENotImpl)
    | DCache d => do j <- norm_neg i (len_ d); get_i d j
    end
  with get_k (d : ds) (k : key) {struct d} : res val :=
    match d with
    | DList _ | DListWu _ => Err (lib ENotImpl)
    | DDict kvs => lookup k kvs
    | DMap f d | DParMap f _ _ d => bind (get_k d k) f
    | DFilter p d => do v <- get_k d k; do b <- p v; if b then Ok v else Err (lib EIndex)
    | DCatch _ d | DCycle d => get_k d k
    | DPrefetch _ _ _ _ | DZip _ | DBatch _ _ _ | DUnbatch _ => Err (lib ENotImpl)
    | DSlice idx d =>
        do ks <- keys_ (DSlice idx d);
        if inb k ks then get_k d k else Err (lib EKey)
    | DConcat l =>
        do _u <- keys_ (DConcat l);
        (fix walk (l : list ds) : res val :=
           match l with
           | [] => Err (lib EKey)
           | d :: t => do ks <- keys_ d; if inb k ks then get_k d k else walk t
           end) l
    | DIntersperse order l =>
        do _u <- keys_ (DIntersperse order l);
        (fix walk (l : list ds) : res val :=
           match l with
           | [] => Err (lib EKey)
           | d :: t => do ks <- keys_ d; if inb k ks then get_k d k else walk t
           end) l
    | DKeyZip l =>
        do vs <- (fix go (l : list ds) : res (list val) :=
                    match l with [] => Ok [] | d :: t => do v <- get_k d k; do r <- go t; Ok (v :: r) end) l;
        Ok (VTup vs)
    | DItems d =>
        do ks <- keys_ d;
        match index_of k ks with
        | Some j => do v <- get_i d (Z.of_nat j); Ok (pair_of k v)
        | None => Err (lib EValue)
        end
    | DCache d =>
        do ks <- keys_ d;
        match index_of k ks with
        | Some j => get_i d (Z.of_nat j)
        | None => Err (lib EValue)
        end
    end.
End GetFix.

(* ------------------------------------------------------------------ __iter__ *)
Definition pair_snd_map (f : val -> res val) (kv : val) : res val :=
  match kv with
  | VTup [k; v] => do w <- f v; Ok (VTup [k; w])
  | _ => Err (lib EType)
  end.

Fixpoint map_until (f : val -> res val) (l : list val) : trace :=
  match l with
  | [] => ([], End)
  | v :: t => match f v with
              | Ok w => let '(r, e) := map_until f t in (w :: r, e)
              | Err e => ([], Raised e)
              end
  end.
Definition then_end (t : trace) (e : ending) : trace :=
  match snd t with End => (fst t, e) | Raised x => t end.
Definition tmap (f : val -> res val) (t : trace) : trace := then_end (map_until f (fst t)) (snd t).

Fixpoint filter_until (p : val -> res bool) (proj : val -> res val) (l : list val) : trace :=
  match l with
  | [] => ([], End)
  | v :: t => match bind (proj v) p with
              | Ok true => let '(r, e) := filter_until p proj t in (v :: r, e)
              | Ok false => filter_until p proj t
              | Err e => ([], Raised e)
              end
  end.
Definition snd_of_pair (kv : val) : res val :=
  match kv with VTup [_; v] => Ok v | _ => Err (lib EType) end.

(* for x in xs: yield g x   -- stops at the first failure *)
Fixpoint loop_get {A} (g : A -> res val) (xs : list A) : trace :=
  match xs with
  | [] => ([], End)
  | x :: t => match g x with
              | Ok v => let '(r, e) := loop_get g t in (v :: r, e)
              | Err e => ([], Raised e)
              end
  end.
(* try: yield g x  except E: pass *)
Fixpoint loop_catch {A} (E : list ecls) (g : A -> res val) (xs : list A) : trace :=
  match xs with
  | [] => ([], End)
  | x :: t => match g x with
              | Ok v => let '(r, e) := loop_catch E g t in (v :: r, e)
              | Err e => if selected E e then loop_catch E g t else ([], Raised e)
              end
  end.

Definition zseq (n : nat) : list Z := map Z.of_nat (seq 0 n).

(* lazy_parallel_map(f, source) observed sequentially: results in order; a failure of the
   *source* (foreground) surfaces as soon as it is pulled, i.e. when only s - B results
   have been handed out (s = number of elements pulled before) *)
Definition parmap_trace (f : val -> res val) (b : nat) (t : trace) : trace :=
  match snd t with
  | End => map_until f (fst t)
  | Raised x => then_end (map_until f (firstn (length (fst t) - b) (fst t))) (Raised x)
  end.

Fixpoint chunks_fuel (fuel n : nat) (l : list val) : list val * list val :=
  (* complete batches, and the incomplete rest *)
  match fuel with
  | O => ([], l)
  | S f => if (length l <? n)%nat then ([], l)
           else let '(bs, r) := chunks_fuel f n (skipn n l) in (VList (firstn n l) :: bs, r)
  end.
Definition batch_trace (n : nat) (drop : bool) (t : trace) : trace :=
  let n' := Nat.max n 1 in
  let '(bs, r) := chunks_fuel (S (length (fst t))) n' (fst t) in
  match snd t with
  | End => (bs ++ (if drop then [] else match r with [] => [] | _ => [VList r] end), End)
  | Raised x => (bs, Raised x)
  end.

Fixpoint unbatch_until (l : list val) : trace :=
  match l with
  | [] => ([], End)
  | VList b :: t | VTup b :: t => let '(r, e) := unbatch_until t in (b ++ r, e)
  | _ :: _ => ([], Raised (lib EAssert))
  end.

Fixpoint concat_traces (ts : list trace) : trace :=
  match ts with
  | [] => ([], End)
  | (a, End) :: t => let '(b, e) := concat_traces t in (a ++ b, e)
  | (a, Raised x) :: _ => (a, Raised x)
  end.

(* zip of the iterators: rows until the first input (asked in order) that cannot deliver *)
Definition zip_rows (ts : list trace) : trace :=
  match ts with
  | [] => ([], End)
  | _ =>
    let r := fold_right Nat.min (length (fst (hd ([], End) ts))) (map (fun t => length (fst t)) ts) in
    let stop := find (fun t => (length (fst t) =? r)%nat) ts in
    (map (fun j => VTup (map (fun t => nth j (fst t) VNone) ts)) (seq 0 r),
     match stop with Some t => snd t | None => End end)
  end.

(* IntersperseDataset.__iter__: next(iterators[dataset_idx]) along the order table *)
Fixpoint bump (cur : list nat) (di : nat) : list nat :=
  match cur, di with
  | [], _ => []
  | c :: t, O => S c :: t
  | c :: t, S di' => c :: bump t di'
  end.
Fixpoint intersperse_walk (ts : list trace) (order : list (nat * nat)) (cur : list nat) : trace :=
  match order with
  | [] => ([], End)
  | (di, _) :: rest =>
      match nth_error ts di with
      | None => ([], Raised (lib EIndex))
      | Some t =>
          let c := nth di cur 0%nat in
          match nth_error (fst t) c with
          | Some v => let '(r, e) := intersperse_walk ts rest (bump cur di) in (v :: r, e)
          | None => match snd t with
                    | End => ([], Raised (lib ERuntime))     (* StopIteration inside a generator *)
                    | Raised x => ([], Raised x)
                    end
          end
      end
  end.

Definition conv_items (t : trace) : trace :=
  match snd t with
  | Raised e => if ecls_eqb (ecl e) EItemsNDBase then (fst t, Raised (lib EItemsND)) else t
  | End => t
  end.
Definition rekey (kv : val) : val :=
  match kv with VTup [k; v] => VTup [k; VTup [k; v]] | _ => kv end.
Definition not_keyed : trace := ([], Raised (lib EItemsNDBase)).
Definition with_res {A} (r : res A) (k : A -> trace) : trace :=
  match r with Ok a => k a | Err e => ([], Raised e) end.
Definition keyed (k : key) (r : res val) : res val := do v <- r; Ok (pair_of k v).

Fixpoint iter_ (wk : bool) (d : ds) {struct d} : trace :=
  match d with
  | DList vs | DListWu vs => if wk then not_keyed else (vs, End)
  | DDict kvs => if wk then (map (fun kv => pair_of (fst kv) (snd kv)) kvs, End) else (map snd kvs, End)
  | DMap f d => if wk then tmap (pair_snd_map f) (iter_ true d) else tmap f (iter_ false d)
  | DParMap f w b d =>
      if wk then parmap_trace (pair_snd_map f) b (iter_ true d) else parmap_trace f b (iter_ false d)
  | DFilter p d =>
      if wk then then_end (filter_until p snd_of_pair (fst (iter_ true d))) (snd (iter_ true d))
      else then_end (filter_until p Ok (fst (iter_ false d))) (snd (iter_ false d))
  | DCatch E d =>
      if wk then with_res (keys_ d) (fun ks => loop_catch E (fun k => keyed k (get_k d k)) ks)
      else with_res (len_ d) (fun n => loop_catch E (get_i d) (zseq n))
  | DPrefetch w b E d =>
      if (w =? 1)%nat then
        (* single_thread_prefetch over the (optionally catch-wrapped) input; with_key -> .items() *)
        match E with
        | Some E =>
            if wk then conv_items (with_res (keys_ d) (fun ks => loop_catch E (fun k => keyed k (get_k d k)) ks))
            else with_res (len_ d) (fun n => loop_catch E (get_i d) (zseq n))
        | None => if wk then conv_items (iter_ true d) else iter_ false d
        end
      else
        if wk then ([], Raised (lib ENotImpl))        (* PrefetchDataset has no keys() *)
        else with_res (len_ d) (fun n =>
               match E with
               | Some E => loop_catch E (get_i d) (zseq n)
               | None => loop_get (get_i d) (zseq n)
               end)
  | DSlice idx d =>
      if wk then with_res (keys_ d) (fun ks =>
                   loop_get (fun j => do k <- nth_key ks j; keyed k (get_i d (Z.of_nat j))) idx)
      else loop_get (fun j => get_i d (Z.of_nat j)) idx
  | DConcat l => concat_traces (map (iter_ wk) l)
  | DIntersperse order l => intersperse_walk (map (iter_ wk) l) order (map (fun _ => 0%nat) l)
  | DZip l => if wk then not_keyed else zip_rows (map (iter_ false) l)
  | DKeyZip l =>
      with_res (keys_ (DKeyZip l)) (fun ks =>
        loop_get (fun k =>
                    let r := do vs <- mapM (fun d => get_k d k) l; Ok (VTup vs) in
                    if wk then keyed k r else r) ks)
  | DItems d =>
      if wk then (let t := conv_items (iter_ true d) in (map rekey (fst t), snd t))
      else conv_items (iter_ true d)
  | DBatch n drop d => if wk then not_keyed else batch_trace n drop (iter_ false d)
  | DUnbatch d => if wk then not_keyed else then_end (unbatch_until (fst (iter_ false d))) (snd (iter_ false d))
  | DCycle d => iter_ wk d      (* ONE pass only; the infinite repetition is observed through take_cycle *)
  | DCache d =>
      if wk then with_res (keys_ d) (fun ks => with_res (len_ d) (fun n =>
                   loop_get (fun j => do k <- py_nth ks (Z.of_nat j); keyed k (get_i (DCache d) (Z.of_nat j))) (seq 0 n)))
      else with_res (len_ d) (fun n => loop_get (get_i (DCache d)) (zseq n))
  end.

(* itertools.islice(iter(d.cycle()), k): passes over the input until k examples came out.
   An empty pass never ends in Python; the model stops it with a RuntimeError marker. *)
Fixpoint take_cycle_fuel (fuel k : nat) (t : trace) : trace :=
  match fuel with
  | O => ([], End)
  | S f =>
      if (k =? 0)%nat then ([], End) else
      let n := length (fst t) in
      if (k <=? n)%nat then (firstn k (fst t), End)
      else match snd t with
           | Raised x => t
           | End => if (n =? 0)%nat then ([], Raised (lib ERuntime))
                    else let '(r, e) := take_cycle_fuel f (k - n) t in (fst t ++ r, e)
           end
  end.
Definition take_cycle (wk : bool) (k : nat) (d : ds) : trace := take_cycle_fuel (S k) k (iter_ wk d).
