(* SortProofs.v - what Dataset.sort / Dataset.groupby compute, as order-theoretic statements:
   the insertion sort of Build.v is a sorted permutation; sort_order is the unique stable
   (key, position) order; sort() without key function delivers the sorted keys;
   group_positions partitions the positions.  Standard library only; no axioms. *)
From Coq Require Import String.
From Coq Require Import List Arith ZArith Bool Lia ZifyBool ZifyNat Permutation Sorted.
Require Import LD.Base LD.PySlice LD.Pipeline LD.Build LD.BuildExtra LD.Ref.
Import ListNotations.

(* ------------------------------------------------------------------ list helpers *)
Lemma SS_weaken_in {A} (R R' : A -> A -> Prop) (l : list A) :
  StronglySorted R l ->
  (forall a b, In a l -> In b l -> R a b -> R' a b) ->
  StronglySorted R' l.
Proof.
  induction 1 as [|a l Hs IH Hf]; intros Himp; constructor.
  - apply IH. intros x y Hx Hy. apply Himp; right; auto.
  - rewrite Forall_forall in *. intros x Hx. apply Himp; [left; auto | right; auto | auto].
Qed.

Lemma SS_map {A B} (f : A -> B) (R : B -> B -> Prop) (l : list A) :
  StronglySorted (fun a b => R (f a) (f b)) l -> StronglySorted R (map f l).
Proof.
  induction 1 as [|a l Hs IH Hf]; simpl; constructor; auto.
  rewrite Forall_forall in *. intros y Hy. apply in_map_iff in Hy as [x [<- Hx]]. auto.
Qed.

Lemma SS_snoc {A} (R : A -> A -> Prop) (l : list A) (x : A) :
  StronglySorted R l -> Forall (fun y => R y x) l -> StronglySorted R (l ++ [x]).
Proof.
  induction 1 as [|a l Hs IH Hf]; intros H; simpl.
  - constructor; constructor.
  - inversion H; subst. constructor; auto.
    apply Forall_app; split; auto.
Qed.

Lemma SS_app_R {A} (R : A -> A -> Prop) (a : list A) (y : A) (r : list A) (x : A) :
  StronglySorted R (a ++ y :: r) -> In x r -> R y x.
Proof.
  induction a as [|z a IH]; simpl; intros Hs Hin.
  - apply StronglySorted_inv in Hs as [_ Hf]. rewrite Forall_forall in Hf. auto.
  - apply StronglySorted_inv in Hs as [Hs _]. auto.
Qed.

Definition before {A} (x y : A) (l : list A) : Prop :=
  exists l1 l2 l3, l = l1 ++ x :: l2 ++ y :: l3.

Lemma SS_before {A} (R : A -> A -> Prop) (l : list A) (x y : A) :
  StronglySorted R l -> In x l -> In y l -> x <> y -> ~ R y x -> before x y l.
Proof.
  intros Hs Hx Hy Hne Hn.
  apply in_split in Hx as [l1 [l2 ->]].
  apply in_app_or in Hy as [Hy | [Hy | Hy]].
  - exfalso. apply in_split in Hy as [a [b ->]].
    rewrite <- app_assoc in Hs. simpl in Hs.
    apply Hn. eapply SS_app_R; [exact Hs|]. apply in_or_app; right; left; auto.
  - congruence.
  - apply in_split in Hy as [a [b ->]]. exists l1, a, b. reflexivity.
Qed.

Lemma map_snd_combine {A B} (l : list A) : forall (l' : list B),
  length l = length l' -> map snd (combine l l') = l'.
Proof.
  induction l as [|x t IH]; intros [|y t'] H; simpl in *; try discriminate; auto.
  f_equal. apply IH. congruence.
Qed.

Lemma combine_app' {A B} (l1 : list A) : forall (l1' : list B) l2 l2',
  length l1 = length l1' -> combine (l1 ++ l2) (l1' ++ l2') = combine l1 l1' ++ combine l2 l2'.
Proof.
  induction l1 as [|x t IH]; intros [|y t'] l2 l2' H; simpl in *; try discriminate; auto.
  f_equal. apply IH. congruence.
Qed.

Lemma combine_seq_nth {A} (d : A) (l : list A) : forall s k i,
  In (k, i) (combine l (seq s (length l))) -> (s <= i < s + length l)%nat /\ nth (i - s) l d = k.
Proof.
  induction l as [|x t IH]; simpl; intros s k i H; [contradiction|].
  destruct H as [H | H].
  - injection H as -> ->. split; [lia|]. rewrite Nat.sub_diag. reflexivity.
  - apply IH in H as [Hb Hn]. split; [lia|].
    replace (i - s)%nat with (S (i - S s)) by lia. exact Hn.
Qed.

(* ------------------------------------------------------------------ generic insertion sort *)
Section IS.
  Context {A : Type} (leb : A -> A -> bool) (P : A -> Prop).
  Hypothesis total : forall a b, P a -> P b -> leb a b = true \/ leb b a = true.
  Hypothesis trans : forall a b c, P a -> P b -> P c ->
                                   leb a b = true -> leb b c = true -> leb a c = true.

  Lemma insert_perm x l : Permutation (insert leb x l) (x :: l).
  Proof.
    induction l as [|y t IH]; simpl; auto.
    destruct (leb x y); auto.
    eapply perm_trans; [apply perm_skip, IH | apply perm_swap].
  Qed.

  Lemma isort_perm l : Permutation (isort leb l) l.
  Proof.
    induction l as [|x t IH]; simpl; auto.
    eapply perm_trans; [apply insert_perm|]. auto.
  Qed.

  Lemma insert_sorted x l :
    P x -> Forall P l ->
    StronglySorted (fun a b => leb a b = true) l ->
    StronglySorted (fun a b => leb a b = true) (insert leb x l).
  Proof.
    induction l as [|y t IH]; intros Px Pl Hs; simpl.
    - constructor; constructor.
    - inversion Pl as [|? ? Py Pt]; subst.
      apply StronglySorted_inv in Hs as [Hs Hf].
      destruct (leb x y) eqn:E.
      + constructor; [constructor; auto|]. constructor; auto.
        rewrite Forall_forall in *. intros z Hz. eapply (trans x y z); auto.
      + constructor; [apply IH; auto|].
        rewrite Forall_forall in *. intros z Hz.
        apply (Permutation_in _ (insert_perm x t)) in Hz. destruct Hz as [<- | Hz]; auto.
        destruct (total x y Px Py) as [H | H]; congruence.
  Qed.

  Lemma isort_sorted l :
    Forall P l -> StronglySorted (fun a b => leb a b = true) (isort leb l).
  Proof.
    induction l as [|x t IH]; intros Pl; simpl; [constructor|].
    inversion Pl; subst. apply insert_sorted; auto.
    rewrite Forall_forall in *. intros z Hz. apply (Permutation_in _ (isort_perm t)) in Hz. auto.
  Qed.
End IS.

(* ------------------------------------------------------------------ String.compare is a total order *)
Lemma ascii_cmp_refl a : Ascii.compare a a = Eq.
Proof. unfold Ascii.compare. apply N.compare_refl. Qed.

Lemma ascii_cmp_lt_trans a b c :
  Ascii.compare a b = Lt -> Ascii.compare b c = Lt -> Ascii.compare a c = Lt.
Proof. unfold Ascii.compare. rewrite !N.compare_lt_iff. apply N.lt_trans. Qed.

Lemma str_cmp_refl s : String.compare s s = Eq.
Proof. induction s as [|a s IH]; simpl; auto. rewrite ascii_cmp_refl. auto. Qed.

Lemma str_cmp_lt_trans a : forall b c,
  String.compare a b = Lt -> String.compare b c = Lt -> String.compare a c = Lt.
Proof.
  induction a as [|x a IH]; intros [|y b] [|z c]; simpl; try discriminate; auto.
  destruct (Ascii.compare x y) eqn:E1; try discriminate;
  destruct (Ascii.compare y z) eqn:E2; try discriminate; intros H1 H2.
  - apply Ascii.compare_eq_iff in E1, E2. subst. rewrite ascii_cmp_refl. eauto.
  - apply Ascii.compare_eq_iff in E1. subst. rewrite E2. auto.
  - apply Ascii.compare_eq_iff in E2. subst. rewrite E1. auto.
  - rewrite (ascii_cmp_lt_trans _ _ _ E1 E2). auto.
Qed.

Lemma str_leb_trans a b c :
  String.leb a b = true -> String.leb b c = true -> String.leb a c = true.
Proof.
  unfold String.leb.
  destruct (String.compare a b) eqn:E1; try discriminate;
  destruct (String.compare b c) eqn:E2; try discriminate; intros _ _.
  - apply String.compare_eq_iff in E1, E2. subst. rewrite str_cmp_refl. auto.
  - apply String.compare_eq_iff in E1. subst. rewrite E2. auto.
  - apply String.compare_eq_iff in E2. subst. rewrite E1. auto.
  - rewrite (str_cmp_lt_trans _ _ _ E1 E2). auto.
Qed.

(* ------------------------------------------------------------------ the order on sort keys *)
Definition skey_le (a b : skey) : Prop :=
  match skey_cmp a b with Some Gt => False | Some _ => True | None => False end.

Definition kindb (k : skey) : bool := match k with KInt _ => true | KStr _ => false end.

Lemma skey_cmp_refl a : skey_cmp a a = Some Eq.
Proof. destruct a; simpl; f_equal; [apply Z.compare_refl | apply str_cmp_refl]. Qed.

Lemma skey_cmp_eq a b : skey_cmp a b = Some Eq -> a = b.
Proof.
  destruct a, b; simpl; try discriminate; intros H; injection H as H.
  - apply Z.compare_eq in H. congruence.
  - apply String.compare_eq_iff in H. congruence.
Qed.

Lemma skey_cmp_antisym a b c : skey_cmp a b = Some c -> skey_cmp b a = Some (CompOpp c).
Proof.
  destruct a, b; simpl; try discriminate; intros H; injection H as <-; f_equal.
  - apply Z.compare_antisym.
  - apply String.compare_antisym.
Qed.

Lemma skey_cmp_lt_trans a b c :
  skey_cmp a b = Some Lt -> skey_cmp b c = Some Lt -> skey_cmp a c = Some Lt.
Proof.
  destruct a, b, c; simpl; try discriminate; intros H1 H2;
    injection H1 as H1; injection H2 as H2; f_equal.
  - rewrite Z.compare_lt_iff in *. lia.
  - eapply str_cmp_lt_trans; eauto.
Qed.

Lemma skey_cmp_kind a b : kindb a = kindb b -> exists c, skey_cmp a b = Some c.
Proof. destruct a, b; simpl; try discriminate; eauto. Qed.

Lemma ki_leb_total k (a b : skey * nat) :
  kindb (fst a) = k -> kindb (fst b) = k -> ki_leb a b = true \/ ki_leb b a = true.
Proof.
  intros Ha Hb. destruct (skey_cmp_kind (fst a) (fst b)) as [c Hc]; [congruence|].
  unfold ki_leb. rewrite Hc, (skey_cmp_antisym _ _ _ Hc). destruct c; simpl; auto.
  destruct (Nat.le_ge_cases (snd a) (snd b)) as [H | H]; [left | right]; apply Nat.leb_le; auto.
Qed.

Lemma ki_leb_trans (a b c : skey * nat) :
  ki_leb a b = true -> ki_leb b c = true -> ki_leb a c = true.
Proof.
  unfold ki_leb.
  destruct (skey_cmp (fst a) (fst b)) as [[]|] eqn:E1; try discriminate;
  destruct (skey_cmp (fst b) (fst c)) as [[]|] eqn:E2; try discriminate; intros H1 H2.
  - apply skey_cmp_eq in E1, E2. rewrite E1, E2, skey_cmp_refl.
    apply Nat.leb_le in H1, H2. apply Nat.leb_le. lia.
  - apply skey_cmp_eq in E1. rewrite E1, E2. auto.
  - apply skey_cmp_eq in E2. rewrite <- E2, E1. auto.
  - rewrite (skey_cmp_lt_trans _ _ _ E1 E2). auto.
Qed.

Lemma ki_leb_antisym (a b : skey * nat) :
  ki_leb a b = true -> ki_leb b a = true -> a = b.
Proof.
  unfold ki_leb. destruct (skey_cmp (fst a) (fst b)) as [c|] eqn:E; [|discriminate].
  rewrite (skey_cmp_antisym _ _ _ E). destruct c; simpl; try discriminate.
  intros H1 H2. apply skey_cmp_eq in E. apply Nat.leb_le in H1, H2.
  destruct a, b; simpl in *. f_equal; auto. lia.
Qed.

Lemma ki_leb_skey_le (a b : skey * nat) : ki_leb a b = true -> skey_le (fst a) (fst b).
Proof.
  unfold ki_leb, skey_le. destruct (skey_cmp (fst a) (fst b)) as [[]|]; try discriminate; auto.
Qed.

Lemma homogeneous_kind vals :
  homogeneous vals = true -> exists k, Forall (fun x => kindb x = k) vals.
Proof.
  destruct vals as [|[z|s] t]; intros H.
  - exists true. constructor.
  - exists true. unfold homogeneous in H. rewrite forallb_forall in H.
    apply Forall_forall. intros x Hx. apply H in Hx. destruct x; auto; discriminate.
  - exists false. unfold homogeneous in H. rewrite forallb_forall in H.
    apply Forall_forall. intros x Hx. apply H in Hx. destruct x; auto; discriminate.
Qed.

Definition tagged (vals : list skey) : list (skey * nat) := combine vals (seq 0 (length vals)).

Lemma tagged_kind vals :
  homogeneous vals = true -> exists k, Forall (fun a => kindb (fst a) = k) (tagged vals).
Proof.
  intros H. apply homogeneous_kind in H as [k H]. exists k.
  rewrite Forall_forall in *. intros [x i] Hin. apply in_combine_l in Hin. simpl. auto.
Qed.

Lemma tagged_In vals a :
  In a (tagged vals) -> a = (nth (snd a) vals (KInt 0), snd a) /\ (snd a < length vals)%nat.
Proof.
  destruct a as [k i]. intros H. apply (combine_seq_nth (KInt 0)) in H as [Hb Hn].
  rewrite Nat.sub_0_r in Hn. simpl. split; [congruence | lia].
Qed.

Lemma map_snd_tagged vals : map snd (tagged vals) = seq 0 (length vals).
Proof. apply map_snd_combine. rewrite seq_length. reflexivity. Qed.

(* the (key, position) pairs come out sorted lexicographically *)
Theorem tagged_sorted vals : homogeneous vals = true ->
  StronglySorted (fun a b => ki_leb a b = true) (isort ki_leb (combine vals (seq 0 (length vals)))).
Proof.
  intros H. destruct (tagged_kind _ H) as [k Hk].
  apply (isort_sorted ki_leb (fun a => kindb (fst a) = k)); auto.
  - intros a b. apply ki_leb_total.
  - intros a b c _ _ _. apply ki_leb_trans.
Qed.

Theorem tagged_sorted_rev vals : homogeneous vals = true ->
  StronglySorted (fun a b => ki_leb b a = true)
                 (isort (fun a b => ki_leb b a) (combine vals (seq 0 (length vals)))).
Proof.
  intros H. destruct (tagged_kind _ H) as [k Hk].
  apply (isort_sorted (fun a b => ki_leb b a) (fun a => kindb (fst a) = k)); auto.
  - intros a b Ha Hb. apply (ki_leb_total k); auto.
  - intros a b c _ _ _ H1 H2. eapply ki_leb_trans; eauto.
Qed.

(* ------------------------------------------------------------------ sort_order *)
Theorem sort_order_perm vals rev : Permutation (sort_order vals rev) (seq 0 (length vals)).
Proof.
  unfold sort_order. fold (tagged vals). rewrite <- (map_snd_tagged vals).
  destruct rev; apply Permutation_map; apply isort_perm.
Qed.

Lemma sort_order_In vals rev i : In i (sort_order vals rev) <-> (i < length vals)%nat.
Proof.
  split; intros H.
  - apply (Permutation_in _ (sort_order_perm vals rev)) in H. apply in_seq in H. lia.
  - apply (Permutation_in _ (Permutation_sym (sort_order_perm vals rev))). apply in_seq. lia.
Qed.

(* the order on positions the sort realises: (key, position) lexicographic *)
Definition idx_le (vals : list skey) (i j : nat) : Prop :=
  ki_leb (nth i vals (KInt 0), i) (nth j vals (KInt 0), j) = true.

Theorem sort_order_sorted_idx vals : homogeneous vals = true ->
  StronglySorted (idx_le vals) (sort_order vals false).
Proof.
  intros H. unfold sort_order. fold (tagged vals). apply SS_map.
  eapply SS_weaken_in; [apply (tagged_sorted vals H)|]. fold (tagged vals).
  intros a b Ha Hb Hab.
  apply (Permutation_in _ (isort_perm ki_leb (tagged vals))) in Ha, Hb.
  apply tagged_In in Ha as [Ha _], Hb as [Hb _]. unfold idx_le. rewrite <- Ha, <- Hb. exact Hab.
Qed.

Theorem sort_order_sorted_idx_rev vals : homogeneous vals = true ->
  StronglySorted (fun i j => idx_le vals j i) (sort_order vals true).
Proof.
  intros H. unfold sort_order. fold (tagged vals). apply SS_map.
  eapply SS_weaken_in; [apply (tagged_sorted_rev vals H)|]. fold (tagged vals).
  intros a b Ha Hb Hab.
  apply (Permutation_in _ (isort_perm (fun a b => ki_leb b a) (tagged vals))) in Ha, Hb.
  apply tagged_In in Ha as [Ha _], Hb as [Hb _]. unfold idx_le. rewrite <- Ha, <- Hb. exact Hab.
Qed.

Theorem sort_order_sorted vals : homogeneous vals = true ->
  StronglySorted skey_le (map (fun i => nth i vals (KInt 0)) (sort_order vals false)).
Proof.
  intros H. apply SS_map. eapply SS_weaken_in; [apply (sort_order_sorted_idx vals H)|].
  intros i j _ _ Hij. apply ki_leb_skey_le in Hij. exact Hij.
Qed.

Theorem sort_order_sorted_rev vals : homogeneous vals = true ->
  StronglySorted (fun a b => skey_le b a)
                 (map (fun i => nth i vals (KInt 0)) (sort_order vals true)).
Proof.
  intros H. apply SS_map. eapply SS_weaken_in; [apply (sort_order_sorted_idx_rev vals H)|].
  intros i j _ _ Hij. apply ki_leb_skey_le in Hij. exact Hij.
Qed.

(* ties keep their relative order ascending (descending with reverse) *)
Lemma tie_not_le vals i j :
  (i < j)%nat -> skey_cmp (nth i vals (KInt 0)) (nth j vals (KInt 0)) = Some Eq ->
  ~ idx_le vals j i.
Proof.
  intros Hlt He. unfold idx_le, ki_leb. simpl.
  rewrite (skey_cmp_antisym _ _ _ He). simpl.
  intros Hc. apply Nat.leb_le in Hc. lia.
Qed.

Theorem sort_order_ties_in vals : homogeneous vals = true ->
  forall i j, In i (sort_order vals false) -> In j (sort_order vals false) -> (i < j)%nat ->
  skey_cmp (nth i vals (KInt 0)) (nth j vals (KInt 0)) = Some Eq ->
  before i j (sort_order vals false).
Proof.
  intros H i j Hi Hj Hlt He.
  apply (SS_before (idx_le vals)); auto using sort_order_sorted_idx, tie_not_le. lia.
Qed.

Theorem sort_order_ties_rev_in vals : homogeneous vals = true ->
  forall i j, In i (sort_order vals true) -> In j (sort_order vals true) -> (i < j)%nat ->
  skey_cmp (nth i vals (KInt 0)) (nth j vals (KInt 0)) = Some Eq ->
  before j i (sort_order vals true).
Proof.
  intros H i j Hi Hj Hlt He.
  apply (SS_before (fun a b => idx_le vals b a)); auto using sort_order_sorted_idx_rev, tie_not_le. lia.
Qed.

Theorem sort_order_ties vals : homogeneous vals = true ->
  forall i j, (i < j)%nat -> (j < length vals)%nat ->
  skey_cmp (nth i vals (KInt 0)) (nth j vals (KInt 0)) = Some Eq ->
  before i j (sort_order vals false) /\ before j i (sort_order vals true).
Proof.
  intros H i j Hlt Hj He. split.
  - apply sort_order_ties_in; auto; apply sort_order_In; lia.
  - apply sort_order_ties_rev_in; auto; apply sort_order_In; lia.
Qed.

(* the result is unique: any arrangement of the positions that is sorted by (key, position) is sort_order *)
Lemma SS_perm_unique {A} (R : A -> A -> Prop) :
  (forall a b, R a b -> R b a -> a = b) ->
  forall l l', StronglySorted R l -> StronglySorted R l' -> Permutation l l' -> l = l'.
Proof.
  intros Hanti. induction l as [|a l IH]; intros l' Hs Hs' Hp.
  - apply Permutation_nil in Hp. auto.
  - destruct l' as [|b l']; [apply Permutation_sym, Permutation_nil in Hp; discriminate|].
    apply StronglySorted_inv in Hs as [Hs Hf], Hs' as [Hs' Hf'].
    rewrite Forall_forall in Hf, Hf'.
    assert (a = b) as ->.
    { assert (Ha : In a (b :: l')) by (apply (Permutation_in _ Hp); left; auto).
      assert (Hb : In b (a :: l)) by (apply (Permutation_in _ (Permutation_sym Hp)); left; auto).
      destruct Ha as [Ha | Ha]; auto. destruct Hb as [Hb | Hb]; auto. }
    f_equal. apply IH; auto. eapply Permutation_cons_inv; eauto.
Qed.

Theorem sort_order_unique vals l : homogeneous vals = true ->
  Permutation l (seq 0 (length vals)) -> StronglySorted (idx_le vals) l ->
  l = sort_order vals false.
Proof.
  intros H Hp Hs. apply (SS_perm_unique (idx_le vals)); auto using sort_order_sorted_idx.
  - unfold idx_le. intros i j H1 H2. pose proof (ki_leb_antisym _ _ H1 H2) as E. congruence.
  - eapply perm_trans; [exact Hp|]. apply Permutation_sym, sort_order_perm.
Qed.

Theorem sort_order_unique_rev vals l : homogeneous vals = true ->
  Permutation l (seq 0 (length vals)) -> StronglySorted (fun i j => idx_le vals j i) l ->
  l = sort_order vals true.
Proof.
  intros H Hp Hs. apply (SS_perm_unique (fun i j => idx_le vals j i)); auto using sort_order_sorted_idx_rev.
  - unfold idx_le. intros i j H1 H2. pose proof (ki_leb_antisym _ _ H1 H2) as E. congruence.
  - eapply perm_trans; [exact Hp|]. apply Permutation_sym, sort_order_perm.
Qed.

(* ------------------------------------------------------------------ sort() without key function *)
Lemma last_index_of_nth k ks : forall base j,
  last_index_of k ks base = Some j -> (base <= j)%nat /\ nth_error ks (j - base) = Some k.
Proof.
  induction ks as [|k' t IH]; simpl; intros base j H; [discriminate|].
  destruct (last_index_of k t (S base)) eqn:E.
  - injection H as ->. apply IH in E as [Hle Hn]. split; [lia|].
    replace (j - base)%nat with (S (j - S base)) by lia. exact Hn.
  - destruct (String.eqb k k') eqn:Ek; [|discriminate]. injection H as <-.
    apply String.eqb_eq in Ek. subst. split; [lia|]. rewrite Nat.sub_diag. reflexivity.
Qed.

Lemma key_indices_keys ks sel : forall idx,
  key_indices ks sel = Ok idx -> mapM (nth_key ks) idx = Ok sel.
Proof.
  unfold key_indices. induction sel as [|k sel IH]; simpl; intros idx H.
  - injection H as <-. reflexivity.
  - destruct (last_index_of k ks 0) eqn:E; simpl in H; [|discriminate].
    match type of H with bind ?m _ = _ => destruct m eqn:E2 end; simpl in H; [|discriminate].
    injection H as <-. simpl. unfold nth_key at 1.
    apply last_index_of_nth in E as [_ E]. rewrite Nat.sub_0_r in E. rewrite E. simpl.
    rewrite (IH _ eq_refl). reflexivity.
Qed.

Lemma str_isort_sorted ks : StronglySorted (fun a b => String.leb a b = true) (isort String.leb ks).
Proof.
  apply (isort_sorted String.leb (fun _ => True)).
  - intros a b _ _. apply String.leb_total.
  - intros a b c _ _ _. apply str_leb_trans.
  - apply Forall_forall. auto.
Qed.

Lemma str_isort_sorted_rev ks :
  StronglySorted (fun a b => String.leb b a = true) (isort (fun a b => String.leb b a) ks).
Proof.
  apply (isort_sorted (fun a b => String.leb b a) (fun _ => True)).
  - intros a b _ _. apply String.leb_total.
  - intros a b c _ _ _ H1 H2. eapply str_leb_trans; eauto.
  - apply Forall_forall. auto.
Qed.

Theorem sort_none_keys p d ks rev d' :
  build p = Ok d -> keys_ d = Ok ks -> build (PSort None rev p) = Ok d' ->
  exists ks', keys_ d' = Ok ks' /\ Permutation ks' ks /\
    StronglySorted (fun a b => if rev then String.leb b a = true else String.leb a b = true) ks'.
Proof.
  intros Hb Hk H. simpl in H. rewrite Hb in H. simpl in H. rewrite Hk in H.
  remember (if rev then isort (fun a b => String.leb b a) ks else isort String.leb ks) as sorted eqn:Es.
  assert (Hperm : Permutation sorted ks) by (subst sorted; destruct rev; apply isort_perm).
  assert (Hsort : StronglySorted (fun a b => if rev then String.leb b a = true else String.leb a b = true) sorted).
  { subst sorted; destruct rev; [apply str_isort_sorted_rev | apply str_isort_sorted]. }
  clear Es. unfold mk_slice in H.
  destruct (negb (indexable d)); [destruct sorted; discriminate|].
  destruct (len_ d) as [n|e]; [|destruct sorted; discriminate].
  destruct sorted as [|k0 sorted].
  - simpl in H. injection H as <-. exists []. simpl. rewrite Hk. simpl. auto.
  - simpl in H. rewrite Hk in H. simpl in H.
    match type of H with bind ?m _ = _ => destruct m as [idx|e] eqn:E end; simpl in H; [|discriminate].
    injection H as <-. exists (k0 :: sorted). simpl. rewrite Hk. simpl.
    split; auto. apply key_indices_keys. exact E.
Qed.

(* ------------------------------------------------------------------ groupby *)
Lemma skey_eqb_eq a b : skey_eqb a b = true <-> a = b.
Proof.
  destruct a, b; simpl.
  - rewrite Z.eqb_eq. split; congruence.
  - split; discriminate.
  - split; discriminate.
  - rewrite String.eqb_eq. split; congruence.
Qed.

Lemma group_add_perm k i gs :
  Permutation (concat (map snd (group_add k i gs))) (i :: concat (map snd gs)).
Proof.
  induction gs as [|[k' l] r IH]; simpl; auto.
  destruct (skey_eqb k k'); simpl.
  - rewrite <- app_assoc. simpl. apply Permutation_sym, Permutation_middle.
  - eapply perm_trans; [apply Permutation_app_head, IH | apply Permutation_sym, Permutation_middle].
Qed.

Lemma group_add_fst_in k i gs x :
  In x (map fst (group_add k i gs)) -> x = k \/ In x (map fst gs).
Proof.
  induction gs as [|[k' l] r IH]; simpl.
  - intros [<- | []]; auto.
  - destruct (skey_eqb k k'); simpl; auto.
    intros [<- | H]; auto. apply IH in H as [-> | H]; auto.
Qed.

Lemma group_add_nodup k i gs : NoDup (map fst gs) -> NoDup (map fst (group_add k i gs)).
Proof.
  induction gs as [|[k' l] r IH]; simpl; intros H.
  - repeat constructor. auto.
  - destruct (skey_eqb k k') eqn:E; simpl; auto.
    inversion H; subst. constructor; auto.
    intros Hin. apply group_add_fst_in in Hin as [-> | Hin]; auto.
    assert (skey_eqb k k = true) by (apply skey_eqb_eq; auto). congruence.
Qed.

Lemma group_add_Forall (Q Q' : skey * list nat -> Prop) k i gs :
  Forall Q gs -> (forall g, Q g -> Q' g) ->
  (forall l, Q (k, l) -> Q' (k, l ++ [i])) -> Q' (k, [i]) ->
  Forall Q' (group_add k i gs).
Proof.
  intros H Hkeep Hadd Hnew. induction H as [|[k' l] r Hg Hr IH]; simpl.
  - constructor; auto.
  - destruct (skey_eqb k k') eqn:E.
    + apply skey_eqb_eq in E. subst k'. constructor; auto.
      eapply Forall_impl; [|exact Hr]. auto.
    + constructor; auto.
Qed.

Lemma group_positions_snoc ids k :
  group_positions (ids ++ [k]) = group_add k (length ids) (group_positions ids).
Proof.
  unfold group_positions. rewrite app_length. simpl. rewrite Nat.add_1_r, seq_S. simpl.
  rewrite combine_app' by (rewrite seq_length; auto).
  rewrite fold_left_app. reflexivity.
Qed.

Definition group_ok (ids : list skey) (g : skey * list nat) : Prop :=
  StronglySorted lt (snd g) /\
  Forall (fun i => (i < length ids)%nat /\ skey_eqb (nth i ids (KInt 0)) (fst g) = true) (snd g).

Lemma group_positions_inv ids :
  Permutation (concat (map snd (group_positions ids))) (seq 0 (length ids)) /\
  NoDup (map fst (group_positions ids)) /\
  Forall (group_ok ids) (group_positions ids).
Proof.
  induction ids as [|k ids IH] using rev_ind.
  - simpl. repeat split; constructor.
  - destruct IH as (Hp & Hn & Hf). rewrite group_positions_snoc. repeat split.
    + rewrite app_length. simpl. rewrite Nat.add_1_r, seq_S. simpl.
      eapply perm_trans; [apply group_add_perm|].
      eapply perm_trans; [apply perm_skip, Hp|]. apply Permutation_cons_append.
    + apply group_add_nodup. exact Hn.
    + apply (group_add_Forall (group_ok ids)); auto.
      * intros g [Hs Hg]. split; auto.
        eapply Forall_impl; [|exact Hg]. simpl. intros i [Hi He].
        rewrite app_length, app_nth1 by auto. simpl. split; [lia | auto].
      * intros l [Hs Hg]. simpl in *. split.
        -- apply SS_snoc; auto. eapply Forall_impl; [|exact Hg]. simpl. tauto.
        -- apply Forall_app. split.
           ++ eapply Forall_impl; [|exact Hg]. simpl. intros i [Hi He].
              rewrite app_length, app_nth1 by auto. simpl. split; [lia | auto].
           ++ constructor; [|constructor]. rewrite app_length, app_nth2, Nat.sub_diag by auto.
              simpl. split; [lia | apply skey_eqb_eq; auto].
      * split; simpl.
        -- constructor; constructor.
        -- constructor; [|constructor]. rewrite app_length, app_nth2, Nat.sub_diag by auto.
           simpl. split; [lia | apply skey_eqb_eq; auto].
Qed.

Theorem group_positions_partition ids :
  let gs := group_positions ids in
  Permutation (concat (map snd gs)) (seq 0 (length ids)) /\
  NoDup (map fst gs) /\
  Forall (fun g => StronglySorted lt (snd g) /\
                   Forall (fun i => skey_eqb (nth i ids (KInt 0)) (fst g) = true) (snd g)) gs.
Proof.
  simpl. destruct (group_positions_inv ids) as (Hp & Hn & Hf). repeat split; auto.
  eapply Forall_impl; [|exact Hf]. intros g [Hs Hg]. split; auto.
  eapply Forall_impl; [|exact Hg]. simpl. tauto.
Qed.

(* no group is empty, and a position is in the group of its id *)
Theorem group_positions_member ids i : (i < length ids)%nat ->
  exists l, In (nth i ids (KInt 0), l) (group_positions ids) /\ In i l.
Proof.
  intros Hi. destruct (group_positions_partition ids) as (Hp & _ & Hf). simpl in *.
  assert (Hin : In i (concat (map snd (group_positions ids)))).
  { apply (Permutation_in _ (Permutation_sym Hp)). apply in_seq. lia. }
  apply in_concat in Hin as [l [Hl Hil]]. apply in_map_iff in Hl as [[k l'] [<- Hg]].
  rewrite Forall_forall in Hf. destruct (Hf _ Hg) as [_ Hk]. rewrite Forall_forall in Hk.
  simpl in *. apply Hk in Hil as He. apply skey_eqb_eq in He. subst k. eauto.
Qed.

Print Assumptions isort_perm.
Print Assumptions isort_sorted.
Print Assumptions tagged_sorted.
Print Assumptions tagged_sorted_rev.
Print Assumptions sort_order_perm.
Print Assumptions sort_order_sorted_idx.
Print Assumptions sort_order_sorted_idx_rev.
Print Assumptions sort_order_sorted.
Print Assumptions sort_order_sorted_rev.
Print Assumptions sort_order_ties_in.
Print Assumptions sort_order_ties_rev_in.
Print Assumptions sort_order_ties.
Print Assumptions sort_order_unique.
Print Assumptions sort_order_unique_rev.
Print Assumptions sort_none_keys.
Print Assumptions group_positions_partition.
Print Assumptions group_positions_member.
