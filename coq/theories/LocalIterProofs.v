(* LocalIterProofs.v - Model F, part 2b: proofs about the step machine of LocalIter.v.
   Every iterator of a buffer-local shuffle owns its buffer: in every history each iterator conserves the examples
   (delivered ++ still to deliver is a permutation of the input); the variant with one buffer per dataset object is refuted. *)
From Coq Require Import List Arith Bool Lia Permutation.
Require Import LD.Shuffle LD.ShuffleProofs LD.ShuffleFreeze LD.LocalIter.
Import ListNotations.

(* ---------------------------------------------------------------- 1. frame *)
Lemma lstep_other B xs s it it' c sigma : it' <> it -> nth_error (lstep B xs s (LNext it' c sigma)) it = nth_error s it.
Proof.
  intros Hne. simpl. destruct (nth_error s it') as [st|]; [|reflexivity].
  apply nth_error_upd_neq. exact Hne.
Qed.

Lemma lstep_start_keeps B xs s it st : nth_error s it = Some st -> nth_error (lstep B xs s LStart) it = Some st.
Proof.
  intros H. simpl. rewrite nth_error_app1; [exact H|].
  apply nth_error_Some. rewrite H. discriminate.
Qed.

(* ---------------------------------------------------------------- 2. one step *)
Definition liter_inv (B : nat) (xs : list nat) (st : liter) : Prop :=
  Permutation (lout st ++ lpending st) xs /\ (ltail st = None -> length (lbuf st) < B) /\ (ltail st <> None -> lbuf st = [] /\ lrest st = []).

Lemma fill_spec B : forall rest buf buf' rest',
  length buf < B -> fill B buf rest = (buf', rest') ->
  buf' ++ rest' = buf ++ rest /\ (length buf' = B \/ (rest' = [] /\ length buf' < B)).
Proof.
  induction rest as [|x r IH]; intros buf buf' rest' Hlen H; simpl in H.
  - inversion H; subst. split; [reflexivity|]. right. split; [reflexivity|exact Hlen].
  - destruct (B <=? length (buf ++ [x])) eqn:E.
    + inversion H; subst. split.
      * rewrite <- app_assoc. reflexivity.
      * left. apply Nat.leb_le in E. rewrite app_length in *. simpl in *. lia.
    + apply Nat.leb_gt in E. destruct (IH _ _ _ E H) as [H1 H2]. split; [|exact H2].
      rewrite H1, <- app_assoc. reflexivity.
Qed.

Lemma lnext_inv B xs st c sigma : 1 <= B -> c < B -> (forall n, Permutation (sigma n) (seq 0 n)) ->
  liter_inv B xs st -> liter_inv B xs (lnext B st c sigma).
Proof.
  intros HB Hc Hs. destruct st as [rest buf tl out]. unfold liter_inv, lnext, lpending. simpl.
  intros (Hp & Hn & Ht).
  destruct tl as [[|x t]|]; simpl.
  - split; [exact Hp|]. split; [congruence|exact Ht].
  - split; [rewrite <- app_assoc; exact Hp|]. split; [congruence|]. intros _. apply Ht. congruence.
  - specialize (Hn eq_refl).
    destruct (fill B buf rest) as [buf' rest'] eqn:F.
    destruct (fill_spec B rest buf buf' rest' Hn F) as [E [HL | [HR HL]]].
    + assert (E1 : (B <=? length buf') = true) by (apply Nat.leb_le; lia).
      rewrite E1.
      destruct (nth_error buf' c) as [y|] eqn:N.
      * simpl. split; [|split].
        -- rewrite <- app_assoc. simpl. rewrite <- E in Hp.
           etransitivity; [|exact Hp]. apply Permutation_app_head.
           change (y :: remove_at buf' c ++ rest') with ((y :: remove_at buf' c) ++ rest').
           apply Permutation_app_tail. apply remove_at_perm. exact N.
        -- intros _. assert (c < length buf') by lia.
           pose proof (remove_at_length buf' c H). lia.
        -- intros H. exfalso. apply H. reflexivity.
      * apply nth_error_None in N. lia.
    + assert (E1 : (B <=? length buf') = false) by (apply Nat.leb_gt; exact HL).
      rewrite E1.
      assert (HPm : Permutation (apply_perm (sigma (length buf')) buf') buf').
      { unfold apply_perm. apply map_nth_perm. unfold is_perm. apply Hs. }
      subst rest'. rewrite app_nil_r in E. rewrite <- E in Hp.
      destruct (apply_perm (sigma (length buf')) buf') as [|x t].
      * simpl. apply Permutation_nil in HPm. rewrite HPm in Hp. split; [exact Hp|].
        split; [congruence|]. intros _. split; reflexivity.
      * simpl. split; [|split; [congruence|intros _; split; reflexivity]].
        rewrite <- app_assoc. simpl. etransitivity; [|exact Hp].
        apply Permutation_app_head. exact HPm.
Qed.

(* ---------------------------------------------------------------- 3. every history *)
Lemma Forall_upd_li {A} (P : A -> Prop) (l : list A) i a : Forall P l -> P a -> Forall P (upd l i a).
Proof.
  intros H Ha. revert i. induction H as [|x l Hx Hl IH]; intros i; destruct i; simpl; constructor; auto.
Qed.

Lemma liter_inv_fresh B xs : 1 <= B -> liter_inv B xs (mkLI xs [] None []).
Proof.
  intros HB. unfold liter_inv, lpending. simpl. split; [reflexivity|]. split; [intros _; lia|].
  intros H. exfalso. apply H. reflexivity.
Qed.

Lemma lstep_inv B xs s o : 1 <= B -> lop_ok B o ->
  Forall (liter_inv B xs) s -> Forall (liter_inv B xs) (lstep B xs s o).
Proof.
  intros HB Ho Hs. destruct o as [|it c sigma]; simpl.
  - apply Forall_app. split; [exact Hs|]. constructor; [|constructor]. apply liter_inv_fresh. exact HB.
  - destruct (nth_error s it) as [st|] eqn:N; [|exact Hs].
    simpl in Ho. destruct Ho as [Hc Hsig].
    apply Forall_upd_li; [exact Hs|].
    apply lnext_inv; try assumption.
    rewrite Forall_forall in Hs. apply Hs. eapply nth_error_In. exact N.
Qed.

Lemma lrun_inv_gen B xs ops : 1 <= B -> Forall (lop_ok B) ops ->
  forall s, Forall (liter_inv B xs) s -> Forall (liter_inv B xs) (fold_left (lstep B xs) ops s).
Proof.
  intros HB Hops. induction Hops as [|o ops Ho Hops IH]; intros s Hs; simpl.
  - exact Hs.
  - apply IH. apply lstep_inv; assumption.
Qed.

Theorem local_iterators_conserve B xs ops : 1 <= B -> Forall (lop_ok B) ops ->
  Forall (liter_inv B xs) (lrun B xs ops).
Proof.
  intros HB Hops. unfold lrun. apply lrun_inv_gen; [assumption|assumption|constructor].
Qed.

Corollary local_iterator_exhausted_is_perm B xs ops it st : 1 <= B -> Forall (lop_ok B) ops ->
  nth_error (lrun B xs ops) it = Some st -> lexhausted st -> Permutation (lout st) xs.
Proof.
  intros HB Hops N Hex.
  pose proof (local_iterators_conserve B xs ops HB Hops) as H.
  rewrite Forall_forall in H. specialize (H st (nth_error_In _ _ N)).
  destruct H as [Hp _]. unfold lpending in Hp. unfold lexhausted in Hex. rewrite Hex in Hp.
  rewrite app_nil_r in Hp. exact Hp.
Qed.

Lemma NoDup_app_l_li {A} (l l' : list A) : NoDup (l ++ l') -> NoDup l.
Proof.
  induction l as [|x l IH]; simpl; intros H; [constructor|].
  inversion H as [|? ? Hin Hnd]; subst. constructor; [|apply IH; exact Hnd].
  intros Hx. apply Hin. apply in_or_app. left. exact Hx.
Qed.

Corollary local_iterator_in_flight_nodup B xs ops it st : 1 <= B -> Forall (lop_ok B) ops -> NoDup xs ->
  nth_error (lrun B xs ops) it = Some st -> NoDup (lout st).
Proof.
  intros HB Hops Hnd N.
  pose proof (local_iterators_conserve B xs ops HB Hops) as H.
  rewrite Forall_forall in H. specialize (H st (nth_error_In _ _ N)).
  destruct H as [Hp _].
  apply (NoDup_app_l_li (lout st) (lpending st)).
  apply (Permutation_NoDup (Permutation_sym Hp)). exact Hnd.
Qed.

(* ---------------------------------------------------------------- 4. shared buffer: refuted *)
Definition shared_witness_ops : list lop :=
  [LStart; LStart;
   LNext 0 0 (fun n => seq 0 n);      (* iterator 0 reads 0, 1; yields 0; the shared buffer keeps 1 *)
   LNext 1 0 (fun n => seq 0 n);      (* iterator 1 reads 0 into the same buffer; yields 1; the buffer keeps 0 *)
   LNext 0 0 (fun n => seq 0 n)].     (* iterator 0 reads 2; yields 0 a second time *)

Theorem local_shared_buffer_refuted :
  exists B xs ops, 1 <= B /\ Forall (lop_ok B) ops /\ NoDup xs /\
    exists rest tl_ out, nth_error (siters (lrun_shared B xs ops)) 0 = Some (rest, tl_, out) /\ ~ NoDup out.
Proof.
  exists 2, [0; 1; 2], shared_witness_ops.
  split; [lia|]. split; [|split].
  - assert (Hok : forall it, lop_ok 2 (LNext it 0 (fun n => seq 0 n))).
    { intros it. simpl. split; [lia|]. intros n. apply Permutation_refl. }
    unfold shared_witness_ops.
    repeat (apply Forall_cons; [first [exact I | apply Hok]|]). apply Forall_nil.
  - repeat (constructor; [simpl; intuition congruence|]). constructor.
  - exists [], None, [0; 0]. split; [vm_compute; reflexivity|].
    intros H. inversion H as [|? ? Hin _]. apply Hin. left. reflexivity.
Qed.

Print Assumptions local_iterators_conserve.
Print Assumptions local_iterator_exhausted_is_perm.
Print Assumptions local_iterator_in_flight_nodup.
Print Assumptions local_shared_buffer_refuted.
