(* ShuffleCopiesProofs.v - proofs about ShuffleCopies.v: a per-epoch reshuffle dataset and its plain copies.
   Objects do not interact: what an iterator yields is a prefix of the array its own object had when the iterator was
   started, whatever happens on the other objects.  The aliasing variant (one shared index array) is refuted. *)
From Coq Require Import List Arith Bool Lia Permutation.
Require Import LD.Shuffle LD.ShuffleProofs LD.ShuffleFreeze LD.ShuffleCopies.
Import ListNotations.
Open Scope nat_scope.
Open Scope list_scope.

(* ---------------------------------------------------------------- 1. frame *)
Lemma cstep_other n s o o' r : o' <> o -> nth_error (cstep n s (COn o' r)) o = nth_error s o.
Proof.
  intros Hne. unfold cstep. destruct (nth_error s o') as [st|]; [|reflexivity].
  apply nth_error_upd_neq. assumption.
Qed.

Lemma cstep_copy_keeps n s o o' st : nth_error s o = Some st -> nth_error (cstep n s (CCopy o')) o = Some st.
Proof.
  intros H. unfold cstep. destruct (nth_error s o') as [st0|]; [|assumption].
  rewrite nth_error_app1; [assumption|]. apply nth_error_Some. congruence.
Qed.

(* an operation on object o itself: the object's own step *)
Lemma cstep_same n s o r st : nth_error s o = Some st -> nth_error (cstep n s (COn o r)) o = Some (rstep st r).
Proof.
  intros H. unfold cstep. rewrite H. apply nth_error_upd_eq. apply nth_error_Some. congruence.
Qed.

Lemma crun_cons n s op ops : crun n s (op :: ops) = crun n (cstep n s op) ops.
Proof. reflexivity. Qed.

(* ---------------------------------------------------------------- 2. invariant *)
Definition obj_ok (n : nat) (st : rstate) : Prop := Permutation (arr st) (seq 0 n) /\ length (outs st) = length (pos st).

Lemma Forall_upd {A} (P : A -> Prop) (l : list A) i a : Forall P l -> P a -> Forall P (upd l i a).
Proof.
  intros Hl Ha. revert i. induction Hl as [|x l Hx Hl IH]; intros i; destruct i; simpl; constructor; auto.
Qed.

Lemma rinit_ok n : obj_ok n (rinit n).
Proof. unfold obj_ok, rinit. simpl. split; reflexivity. Qed.

Lemma rstep_ok n st r :
  match r with RStart sg => Permutation sg (seq 0 n) | RNext _ => True end ->
  obj_ok n st -> obj_ok n (rstep st r).
Proof.
  intros Hr [Ha Hl]. destruct r as [sg|it].
  - unfold obj_ok. simpl. split.
    + apply (apply_perm_is_perm n sg (arr st)); assumption.
    + rewrite !app_length. simpl. lia.
  - unfold obj_ok. simpl.
    destruct (nth_error (pos st) it) as [p|]; [|split; assumption].
    destruct (nth_error (arr st) p) as [idx|]; [|split; assumption].
    simpl. rewrite !upd_length. split; assumption.
Qed.

Lemma cstep_ok n s op : cop_ok n op -> Forall (obj_ok n) s -> Forall (obj_ok n) (cstep n s op).
Proof.
  intros Hop Hs. destruct op as [o r|o]; unfold cstep.
  - destruct (nth_error s o) as [st|] eqn:E; [|assumption].
    apply Forall_upd; [assumption|].
    apply rstep_ok.
    + destruct r; [exact Hop|exact I].
    + rewrite Forall_forall in Hs. apply Hs. eapply nth_error_In. eassumption.
  - destruct (nth_error s o) as [st|]; [|assumption].
    apply Forall_app. split; [assumption|]. constructor; [apply rinit_ok|constructor].
Qed.

Lemma crun_ok n ops : forall s, Forall (cop_ok n) ops -> Forall (obj_ok n) s -> Forall (obj_ok n) (crun n s ops).
Proof.
  induction ops as [|op ops IH]; intros s Hops Hs; [exact Hs|].
  inversion Hops; subst. rewrite crun_cons. apply IH; [assumption|]. apply cstep_ok; assumption.
Qed.

Theorem crun_inv n ops : Forall (cop_ok n) ops -> Forall (obj_ok n) (crun n (cinit n) ops).
Proof.
  intros Hops. apply crun_ok; [assumption|]. unfold cinit. constructor; [apply rinit_ok|constructor].
Qed.

(* ---------------------------------------------------------------- 3. main theorem *)
Definition obj_inv (A : list nat) (it o : nat) (s : list rstate) : Prop :=
  exists st', nth_error s o = Some st' /\ iter_inv A it st'.

Lemma obj_inv_step n A it o s op : no_start_on o op -> obj_inv A it o s -> obj_inv A it o (cstep n s op).
Proof.
  intros Hop (st' & Hn & Hinv). destruct op as [o' r|o'].
  - destruct (Nat.eq_dec o' o) as [->|Hne].
    + destruct r as [sg|it'].
      * simpl in Hop. exfalso. apply Hop. reflexivity.
      * exists (rstep st' (RNext it')). split; [apply cstep_same; assumption|].
        apply iter_inv_next. assumption.
    + exists st'. split; [|assumption]. rewrite cstep_other by assumption. assumption.
  - exists st'. split; [|assumption]. apply cstep_copy_keeps. assumption.
Qed.

Lemma obj_inv_run n A it o ops : forall s,
  Forall (no_start_on o) ops -> obj_inv A it o s -> obj_inv A it o (crun n s ops).
Proof.
  induction ops as [|op ops IH]; intros s Hops Hs; [exact Hs|].
  inversion Hops; subst. rewrite crun_cons. apply IH; [assumption|]. apply obj_inv_step; assumption.
Qed.

Theorem copies_single_start n pre sigma ops o st :
  Forall (cop_ok n) pre -> Permutation sigma (seq 0 n) -> Forall (no_start_on o) ops ->
  nth_error (crun n (cinit n) pre) o = Some st ->
  let it := length (pos st) in
  let s' := crun n (crun n (cinit n) pre) (COn o (RStart sigma) :: ops) in
  exists st', nth_error s' o = Some st' /\
    nth it (outs st') [] = firstn (length (nth it (outs st') [])) (apply_perm sigma (arr st)) /\
    (length (nth it (outs st') []) = n -> Permutation (nth it (outs st') []) (seq 0 n)).
Proof.
  intros Hpre Hsig Hops Hst it s'.
  assert (Hok : obj_ok n st).
  { pose proof (crun_inv n pre Hpre) as Hall. rewrite Forall_forall in Hall.
    apply Hall. eapply nth_error_In. eassumption. }
  destruct Hok as [Harr0 Hl0].
  assert (Hinv : obj_inv (apply_perm sigma (arr st)) it o s').
  { unfold s'. rewrite crun_cons. apply obj_inv_run; [assumption|].
    exists (rstep st (RStart sigma)). split; [apply cstep_same; assumption|].
    apply iter_inv_start. assumption. }
  destruct Hinv as (st' & Hn & Harr & Hlen & Hit & p & Hp & Ho & Hle).
  exists st'. split; [assumption|].
  assert (Hlp : length (nth it (outs st') []) = p) by (rewrite Ho, firstn_length; lia).
  rewrite Hlp. split; [assumption|].
  intros ->. rewrite Ho.
  pose proof (apply_perm_is_perm n sigma (arr st) Hsig Harr0) as HA.
  rewrite <- (is_perm_length _ _ HA) at 1. rewrite firstn_all. exact HA.
Qed.

(* ---------------------------------------------------------------- 4. the aliasing variant is refuted *)
Theorem copies_alias_refuted :
  exists n ops, Forall (cop_ok n) ops /\ Forall (no_start_on 0) (tl ops) /\
    exists ps os, nth_error (aobjs (arun (ainit n) ops)) 0 = Some (ps, os) /\ ~ NoDup (nth 0 os []).
Proof.
  exists 2, [COn 0 (RStart [0;1]); COn 0 (RNext 0); CCopy 0; COn 1 (RStart [1;0]); COn 0 (RNext 0)].
  split; [|split].
  - repeat constructor.
  - simpl. repeat constructor; simpl; discriminate.
  - eexists. eexists. split.
    + vm_compute. reflexivity.
    + simpl. intros H. inversion H as [|x l Hin Hnd]; subst. apply Hin. simpl. auto.
Qed.

Print Assumptions copies_single_start.
Print Assumptions crun_inv.
Print Assumptions copies_alias_refuted.
