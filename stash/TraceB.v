From Coq Require Import List Arith ZArith Bool Lia ZifyBool ZifyNat.
Import ListNotations.
Require Import PipeA.
Open Scope Z_scope.

(* Model B: every element of an iteration carries the events that its production caused.
   stream = per-element segments + a final segment (events of the next() call that ends the iteration). *)
Inductive event :=
| App (stage : nat) (arg : val)      (* a user function of stage is applied to arg *)
| Fetch (stage : nat)                (* stage hands one element to its consumer *)
| Fail (stage : nat).                (* a fetch from stage raised *)

Definition seg := (list event * val)%type.
Inductive ending := End | Raised (e : exn).
Definition stream := (list seg * (list event * ending))%type.

(* pipelines with stage ids (assigned by the builder; unique) *)
Inductive dsb :=
| BList (id : nat) (vs : list val)
| BMap (id : nat) (f : val -> res val) (d : dsb)
| BFilter (id : nat) (p : val -> res bool) (d : dsb)
| BConcat (id : nat) (l : list dsb)
| BBatch (id : nat) (n : nat) (drop : bool) (d : dsb).

Definition sid (d : dsb) : nat :=
  match d with BList i _ | BMap i _ _ | BFilter i _ _ | BConcat i _ | BBatch i _ _ _ => i end.

(* map: each upstream segment gets App + Fetch appended; the first failure ends the stream *)
Fixpoint s_map (id : nat) (f : val -> res val) (segs : list seg) (fin : list event * ending) : stream :=
  match segs with
  | [] => ([], fin)
  | (evs, v) :: r =>
      match f v with
      | Ok w => let '(out, fin') := s_map id f r fin in ((evs ++ [App id v; Fetch id], w) :: out, fin')
      | Err e => ([], (evs ++ [App id v; Fail id], Raised e))
      end
  end.

(* filter: events of rejected elements are charged to the next accepted one (or to the final segment) *)
Fixpoint s_filter (id : nat) (p : val -> res bool) (carry : list event) (segs : list seg) (fin : list event * ending) : stream :=
  match segs with
  | [] => let '(fe, en) := fin in ([], (carry ++ fe ++ match en with End => [] | Raised _ => [Fail id] end, en))
  | (evs, v) :: r =>
      match p v with
      | Ok true => let '(out, fin') := s_filter id p [] r fin in ((carry ++ evs ++ [App id v; Fetch id], v) :: out, fin')
      | Ok false => s_filter id p (carry ++ evs ++ [App id v]) r fin
      | Err e => ([], (carry ++ evs ++ [App id v; Fail id], Raised e))
      end
  end.

(* batch: n upstream segments are merged; leftover handled at the end *)
Fixpoint s_batch (id n : nat) (drop : bool) (cur : list val) (carry : list event) (segs : list seg) (fin : list event * ending) : stream :=
  match segs with
  | [] => let '(fe, en) := fin in
          match en with
          | End => match cur with
                   | [] => ([], (carry ++ fe, End))
                   | _ => if drop then ([], (carry ++ fe, End))
                          else ([(carry ++ fe ++ [Fetch id], VList cur)], ([], End))
                   end
          | Raised e => ([], (carry ++ fe ++ [Fail id], Raised e))
          end
  | (evs, v) :: r =>
      let cur' := cur ++ [v] in
      if (n <=? length cur')%nat
      then let '(out, fin') := s_batch id n drop [] [] r fin in ((carry ++ evs ++ [Fetch id], VList cur') :: out, fin')
      else s_batch id n drop cur' (carry ++ evs) r fin
  end.

(* concatenation: the final segment of part i is charged to the first element of part i+1 *)
Fixpoint s_pass (id : nat) (carry : list event) (segs : list seg) : list seg :=
  match segs with
  | [] => []
  | (evs, v) :: r => (carry ++ evs ++ [Fetch id], v) :: s_pass id [] r
  end.

Fixpoint iter_s (d : dsb) : stream :=
  match d with
  | BList id vs => (map (fun v => ([Fetch id], v)) vs, ([], End))
  | BMap id f u => let '(segs, fin) := iter_s u in s_map id f segs fin
  | BFilter id p u => let '(segs, fin) := iter_s u in s_filter id p [] segs fin
  | BBatch id n drop u => let '(segs, fin) := iter_s u in s_batch id n drop [] [] segs fin
  | BConcat id l =>
      (fix go (l : list dsb) (carry : list event) : stream :=
         match l with
         | [] => ([], (carry, End))
         | u :: t =>
             let '(segs, (fe, en)) := iter_s u in
             match en with
             | Raised e => (s_pass id carry segs, ((match segs with [] => carry | _ => [] end) ++ fe ++ [Fail id], Raised e))
             | End =>
                 match segs with
                 | [] => go t (carry ++ fe)
                 | _ => let '(out, fin') := go t fe in (s_pass id carry segs ++ out, fin')
                 end
             end
         end) l []
  end.

(* erasure to Model A *)
Fixpoint erase_ds (d : dsb) : ds :=
  match d with
  | BList _ vs => DList vs
  | BMap _ f u => DMap f (erase_ds u)
  | BFilter _ p u => DFilter p (erase_ds u)
  | BConcat _ l => DConcat (map erase_ds l)
  | BBatch _ n drop u => DBatch n drop (erase_ds u)
  end.
Definition erase (s : stream) : trace :=
  (map snd (fst s), match snd (snd s) with End => None | Raised e => Some e end).

(* events incurred by consuming the first k results *)
Definition events_upto (k : nat) (s : stream) : list event := concat (map fst (firstn k (fst s))).
Definition apps_of (id : nat) (evs : list event) : list val :=
  flat_map (fun e => match e with App i v => if Nat.eqb i id then [v] else [] | _ => [] end) evs.
Definition fetches_of (id : nat) (evs : list event) : nat :=
  length (filter (fun e => match e with Fetch i => Nat.eqb i id | _ => false end) evs).

(* demo: map . filter . batch over a list; how many applications of f happen for the first batch? *)
Definition demo : dsb :=
  BBatch 4 2%nat false
    (BFilter 3 (fun v => match v with VInt z => Ok (Z.even z) | _ => Ok true end)
      (BMap 2 (fun v => match v with VInt z => Ok (VInt (z + 1)) | _ => Err TypeErr end)
        (BList 1 [VInt 1; VInt 2; VInt 3; VInt 4; VInt 5; VInt 6; VInt 7]))).
Eval vm_compute in (erase (iter_s demo)).
Eval vm_compute in (apps_of 2 (events_upto 1 (iter_s demo)), fetches_of 1 (events_upto 1 (iter_s demo))).
Eval vm_compute in (iter_ (erase_ds demo)).
