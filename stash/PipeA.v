From Coq Require Import List Arith ZArith Bool Lia.
Import ListNotations.
Open Scope Z_scope.

(* values, results *)
Inductive exn := IndexErr | UserErr (t : Z) | TypeErr | NotImpl.
Inductive res (A : Type) := Ok (a : A) | Err (e : exn).
Arguments Ok {A}. Arguments Err {A}.
Definition bind {A B} (r : res A) (f : A -> res B) : res B :=
  match r with Ok a => f a | Err e => Err e end.

Inductive val := VInt (z : Z) | VList (l : list val).

Inductive ds :=
| DList (vs : list val)
| DMap (f : val -> res val) (d : ds)
| DFilter (p : val -> res bool) (d : ds)
| DSlice (idx : list nat) (d : ds)
| DConcat (l : list ds)
| DBatch (n : nat) (drop : bool) (d : ds).

(* trace: yielded values then ending *)
Definition trace := (list val * option exn)%type.

Fixpoint indexable (d : ds) : bool :=
  match d with
  | DList _ => true | DMap _ d => indexable d | DFilter _ _ => false
  | DSlice _ _ => true | DConcat l => forallb indexable l | DBatch _ _ d => indexable d
  end.

Fixpoint sum_res (l : list (res nat)) : res nat :=
  match l with [] => Ok 0%nat | r :: t => bind r (fun a => bind (sum_res t) (fun b => Ok (a + b)%nat)) end.

Fixpoint len_ (d : ds) : res nat :=
  match d with
  | DList vs => Ok (length vs)
  | DMap _ d => len_ d
  | DFilter _ _ => Err TypeErr
  | DSlice idx _ => Ok (length idx)
  | DConcat l => sum_res (map len_ l)
  | DBatch n drop d => bind (len_ d) (fun m =>
        Ok (if drop then m / n else (m + n - 1) / n)%nat)
  end.

(* python-style list index *)
Definition py_nth {A} (l : list A) (i : Z) : res A :=
  let n := Z.of_nat (length l) in
  let j := if i <? 0 then i + n else i in
  if (j <? 0) || (n <=? j) then Err IndexErr
  else match nth_error l (Z.to_nat j) with Some a => Ok a | None => Err IndexErr end.

(* BatchDataset.__getitem__ inner loop *)
Fixpoint batch_collect (get : Z -> res val) (start : Z) (k : nat) (first : bool) (drop : bool) : res (list val) :=
  match k with
  | O => Ok []
  | S k' => match get start with
            | Ok v => bind (batch_collect get (start + 1) k' false drop) (fun r => Ok (v :: r))
            | Err IndexErr => if first || drop then Err IndexErr
                              else batch_collect get (start + 1) k' false drop  (* pass *)
            | Err e => Err e
            end
  end.

Fixpoint get_i (d : ds) (i : Z) {struct d} : res val :=
  match d with
  | DList vs => py_nth vs i
  | DMap f d => bind (get_i d i) f
  | DFilter _ _ => Err TypeErr
  | DSlice idx d => bind (py_nth idx i) (fun j => get_i d (Z.of_nat j))
  | DConcat l =>
      bind (sum_res (map len_ l)) (fun n =>
      let j := if i <? 0 then i + Z.of_nat n else i in
      if j <? 0 then Err IndexErr else
      (fix walk (l : list ds) (j : Z) : res val :=
         match l with
         | [] => Err IndexErr
         | d :: t => match len_ d with
                     | Ok m => if Z.of_nat m <=? j then walk t (j - Z.of_nat m) else get_i d j
                     | Err e => Err e
                     end
         end) l j)
  | DBatch n drop d =>
      bind (if i <? 0 then bind (len_ (DBatch n drop d)) (fun m => Ok (i + Z.of_nat m)) else Ok i) (fun j =>
      if j <? 0 then Err IndexErr else
      bind (batch_collect (get_i d) (j * Z.of_nat n) n true drop) (fun b => Ok (VList b)))
  end.

(* iteration *)
Fixpoint map_until (f : val -> res val) (l : list val) : trace :=
  match l with [] => ([], None)
  | v :: t => match f v with Ok w => let '(r, e) := map_until f t in (w :: r, e) | Err e => ([], Some e) end end.
Fixpoint filter_until (p : val -> res bool) (l : list val) : trace :=
  match l with [] => ([], None)
  | v :: t => match p v with
              | Ok true => let '(r, e) := filter_until p t in (v :: r, e)
              | Ok false => filter_until p t
              | Err e => ([], Some e) end end.
Fixpoint get_until (g : nat -> res val) (idx : list nat) : trace :=
  match idx with [] => ([], None)
  | j :: t => match g j with Ok w => let '(r, e) := get_until g t in (w :: r, e) | Err e => ([], Some e) end end.
Fixpoint chunks_fuel (fuel n : nat) (drop : bool) (l : list val) : list val :=
  match fuel with O => [] | S f =>
   match l with [] => []
   | _ => let c := firstn n l in
          if (length c <? n)%nat then (if drop then [] else [VList c])
          else VList c :: chunks_fuel f n drop (skipn n l)
   end end.
Definition chunks n drop l := chunks_fuel (S (length l)) n drop l.

Definition on_trace (t : trace) (k : list val -> trace) : trace :=
  let '(l, e) := t in
  match e with None => k l | Some x => let '(l', _) := k l in (l', Some x) end.

Fixpoint iter_ (d : ds) : trace :=
  match d with
  | DList vs => (vs, None)
  | DMap f d => let '(l, e) := iter_ d in
                let '(l', e') := map_until f l in (l', match e' with Some x => Some x | None => e end)
  | DFilter p d => let '(l, e) := iter_ d in
                let '(l', e') := filter_until p l in (l', match e' with Some x => Some x | None => e end)
  | DSlice idx d => get_until (fun j => get_i d (Z.of_nat j)) idx
  | DConcat l => (fix go (l : list ds) : trace :=
                    match l with [] => ([], None)
                    | d :: t => let '(a, e) := iter_ d in
                                match e with Some x => (a, Some x)
                                | None => let '(b, e') := go t in (a ++ b, e') end end) l
  | DBatch n drop d => let '(l, e) := iter_ d in
        match e with
        | None => (chunks n drop l, None)
        | Some x => (chunks n true l, Some x)   (* complete batches before the failure *)
        end
  end.
