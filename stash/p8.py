import os, sys, warnings, gc, tempfile, pickle, json, copy, shutil
os.environ['OMP_NUM_THREADS']='1'; os.environ['MKL_NUM_THREADS']='1'
sys.path.insert(0, os.environ.get('VERIF_REPO','/repo')); warnings.simplefilter('ignore')
from pathlib import Path
import numpy as np, lazy_dataset
from lazy_dataset.core import *
from lazy_dataset.database import DictDatabase, JsonDatabase
def t(name, f):
    try: print(f'{name}: OK -> {f()!r}')
    except BaseException as e: print(f'{name}: RAISED {type(e).__name__}: {str(e)[:120]!r}')
d = lazy_dataset.new({'a':1,'b':2,'c':3,'d':4})
# C13: vars of copy for each stage
rng = np.random.RandomState(3)
stages = {
 'map': d.map(abs), 'parmap': d.map(abs, num_workers=2, buffer_size=3, backend='t'), 'filter': d.filter(bool),
 'slice': d[1:3], 'concat': d.concatenate(d.map(abs)), 'intersperse': d.intersperse(d.map(abs)), 'zip': d.zip(d), 'keyzip': d.key_zip(d),
 'items': d.items(), 'batch': d.batch(3, drop_last=True), 'unbatch': d.batch(2).unbatch(), 'catch': d.catch((ValueError, KeyError), warn=True),
 'prefetch': d.prefetch(2, 5, backend='t', catch_filter_exception=(ValueError,)), 'reshuffle': d.shuffle(True, rng=rng), 'local': d.shuffle(True, rng=rng, buffer_size=3),
 'cache': d.cache(keep_mem_free='3 GB'), 'bucket': d.batch_dynamic_time_series_bucket(2, len_key=abs, max_padding_rate=0.5, max_total_size=9, expiration=3, max_buffered_examples=4, drop_incomplete=True, sort_key=abs, reverse_sort=True),
 'apply': d.apply(lambda x: x, lazy=True), 'dict': DictDataset({'a':1}, name='nm'), 'list': ListDataset([1,2], name='nm'), 'cycle': d.cycle(),
}
def flat(v):
    if isinstance(v, Dataset): return ('DS', type(v).__name__)
    if isinstance(v, (list, tuple)) and v and isinstance(v[0], Dataset): return tuple(flat(x) for x in v)
    if isinstance(v, np.ndarray): return ('arr', v.tolist())
    if isinstance(v, np.random.RandomState) or v is np.random: return ('rng', id(v))
    if callable(v): return ('fn', getattr(v, '__name__', type(v).__name__), id(v) if not getattr(v,'__name__','')=='<lambda>' else 'lambda')
    return v
for name, st in stages.items():
    try:
        c = st.copy()
        a = {k: flat(v) for k, v in vars(st).items() if not k.startswith('_keys')}
        b = {k: flat(v) for k, v in vars(c).items() if not k.startswith('_keys')}
        diff = {k: (a.get(k), b.get(k)) for k in set(a)|set(b) if a.get(k) != b.get(k)}
        print('copy', name, 'DIFF' if diff else 'same', diff if diff else '')
    except BaseException as e:
        print('copy', name, 'RAISED', type(e).__name__)
# C20 hit counts
p = ProfilingDataset(d.map(abs).filter(lambda x: x % 2 == 0).batch(2))
print(list(p)); print(repr(p))
p = ProfilingDataset(d.map(abs)[1:3]); print(list(p), p[0]); print(repr(p))
def boom(x):
    if x == 3: raise ValueError('boom')
    return x
p = ProfilingDataset(d.map(boom)); t('prof raise', lambda: list(p)); print(repr(p))
p = ProfilingDataset(d.map(boom).catch(ValueError)); t('prof catch', lambda: list(p)); print(repr(p))
# C11 lifecycle
tmp = tempfile.mkdtemp(); cd = os.path.join(tmp, 'c')
calls=[]
def m(x): calls.append(x); return x*10
ds = lazy_dataset.new(list(range(4))).map(m).diskcache(cache_dir=cd, reuse=False, clear=False)
print(ds[1], ds[-1], ds[3], calls)
c2 = ds.copy(); del ds; gc.collect(); print('dir exists after del original (copy alive, clear=False):', os.path.isdir(cd)); print(c2[2], calls); del c2; gc.collect()
print('dir exists after all released clear=False:', os.path.isdir(cd), sorted(os.listdir(cd)))
t('reopen reuse=False', lambda: lazy_dataset.new(list(range(4))).map(m).diskcache(cache_dir=cd, reuse=False, clear=False))
calls.clear(); ds = lazy_dataset.new(list(range(4))).map(m).diskcache(cache_dir=cd, reuse=True, clear=True); print(list(ds), calls)
c3 = ds.copy(); del ds; gc.collect(); print('clear=True, copy alive: dir', os.path.isdir(cd)); del c3; gc.collect(); print('clear=True all released: dir', os.path.isdir(cd))
shutil.rmtree(tmp, ignore_errors=True)
# C19 memo / pickle / augment
src = {'datasets': {'x': {'a': {'v': 1}, 'b': {'v': 2}}, 'y': {'c': {'v': 3}}}, 'alias': {'xy': ['x', 'y']}}
snap = copy.deepcopy(src); db = DictDatabase(src)
a = db.get_dataset('x'); b = db.get_dataset('x'); print('same obj', a is b); print(list(db.get_dataset('xy'))); print(list(db.get_dataset(['x','y'])))
ia = id(a); del a, b; gc.collect(); c = db.get_dataset('x'); print('after gc new object', id(c) != ia or 'maybe same id')
print('src unchanged', src == snap)
t('overlap alias', lambda: DictDatabase({'datasets': {'x': {'a': {}}, 'y': {'a': {}}}, 'alias': {'xy': ['x','y']}}).get_dataset('xy'))
t('dup dataset names', lambda: DictDatabase({'datasets': {'x': {'a': {}}}}, {'datasets': {'x': {'b': {}}}}))
t('dup alias vs dataset', lambda: DictDatabase({'datasets': {'x': {'a': {}}}, 'alias': {}}, {'datasets': {'y': {'b': {}}}, 'alias': {'x': ['y']}}))
t('alias same part as dataset', lambda: DictDatabase({'datasets': {'x': {'a': {}}}, 'alias': {}}, {'datasets': {'y': {'b': {}}}, 'alias': {'y': ['x']}}).get_dataset('y'))
with tempfile.TemporaryDirectory() as f:
    pth = Path(f)/'j.json'; pth.write_text(json.dumps(snap)); jdb = JsonDatabase(pth); j2 = pickle.loads(pickle.dumps(jdb))
    print('json', list(jdb.get_dataset('xy')) == list(j2.get_dataset('xy')) == list(db.get_dataset('xy')))
t('empty dataset', lambda: DictDatabase({'datasets': {'x': {}}}).get_dataset('x'))
t('unknown', lambda: db.get_dataset('zz'))
