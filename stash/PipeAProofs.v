From Coq Require Import List Arith ZArith Bool Lia ZifyBool ZifyNat.
Import ListNotations.
Require Import PipeA.
Open Scope Z_scope.

Definition agrees (d : ds) (l : list val) : Prop :=
  iter_ d = (l, None) /\ len_ d = Ok (length l) /\ forall i, get_i d i = py_nth l i.

(* reference semantics as a relation, with the error-free side conditions *)
Inductive good : ds -> list val -> Prop :=
| g_list vs : good (DList vs) vs
| g_map f d l l' : good d l -> Forall2 (fun v w => f v = Ok w) l l' -> good (DMap f d) l'
| g_slice idx d l : good d l -> Forall (fun j => (j < length l)%nat) idx ->
                    good (DSlice idx d) (map (fun j => nth j l (VInt 0)) idx)
| g_concat ds ls : Forall2 good ds ls -> good (DConcat ds) (concat ls)
| g_batch n drop d l : good d l -> (1 <= n)%nat -> good (DBatch n drop d) (chunks n drop l).

(* ---- py_nth facts ---- *)
Lemma py_nth_ok {A} (l : list A) (i : nat) d : (i < length l)%nat -> py_nth l (Z.of_nat i) = Ok (nth i l d).
Proof.
  intros H. unfold py_nth.
  assert (Z.of_nat i <? 0 = false) by lia. rewrite H0.
  assert ((Z.of_nat i <? 0) || (Z.of_nat (length l) <=? Z.of_nat i) = false) by lia. rewrite H1.
  rewrite Nat2Z.id. destruct (nth_error l i) eqn:E.
  - f_equal. symmetry. apply nth_error_nth. exact E.
  - apply nth_error_None in E. lia.
Qed.

Lemma py_nth_map {A B} (f : A -> B) (l : list A) i :
  py_nth (map f l) i = match py_nth l i with Ok a => Ok (f a) | Err e => Err e end.
Proof.
  unfold py_nth. rewrite map_length.
  destruct ((if i <? 0 then i + Z.of_nat (length l) else i) <? 0) ; simpl; auto.
  destruct (Z.of_nat (length l) <=? (if i <? 0 then i + Z.of_nat (length l) else i)); simpl; auto.
  rewrite nth_error_map. destruct (nth_error l _); auto.
Qed.

Lemma py_nth_cases {A} (l : list A) i :
  (exists j a, (j < length l)%nat /\ nth_error l j = Some a /\ py_nth l i = Ok a /\
      (i = Z.of_nat j \/ i = Z.of_nat j - Z.of_nat (length l)))
  \/ (py_nth l i = Err IndexErr /\ (i < - Z.of_nat (length l) \/ Z.of_nat (length l) <= i)).
Proof.
  unfold py_nth. set (n := Z.of_nat (length l)).
  destruct (i <? 0) eqn:E1.
  - destruct (i + n <? 0) eqn:E2; simpl.
    + right. split; auto. lia.
    + destruct (n <=? i + n) eqn:E3. { exfalso; lia. }
      destruct (nth_error l (Z.to_nat (i + n))) eqn:E4.
      * left. exists (Z.to_nat (i+n)), a. repeat split; auto.
        apply nth_error_Some. congruence. right. lia.
      * apply nth_error_None in E4. lia.
  - assert (i <? 0 = false) by auto. destruct (n <=? i) eqn:E3; simpl; rewrite ?H.
    + right. split; [|lia]. destruct (i <? 0); auto.
    + replace (i <? 0) with false. simpl.
      destruct (nth_error l (Z.to_nat i)) eqn:E4.
      * left. exists (Z.to_nat i), a. repeat split; auto. apply nth_error_Some; congruence. left; lia.
      * apply nth_error_None in E4. lia.
Qed.

Lemma Forall2_length {A B} (R : A -> B -> Prop) l l' : Forall2 R l l' -> length l = length l'.
Proof. induction 1; simpl; auto. Qed.

(* ---- map ---- *)
Lemma map_until_ok f l l' : Forall2 (fun v w => f v = Ok w) l l' -> map_until f l = (l', None).
Proof. induction 1; simpl; auto. rewrite H, IHForall2. reflexivity. Qed.

Lemma forall2_nth_error {A B} (R : A -> B -> Prop) l l' : Forall2 R l l' ->
  forall j, match nth_error l j, nth_error l' j with
            | Some a, Some b => R a b | None, None => True | _, _ => False end.
Proof. induction 1; intros [|j]; simpl; auto. apply IHForall2. Qed.

Lemma agrees_map f d l l' : agrees d l -> Forall2 (fun v w => f v = Ok w) l l' -> agrees (DMap f d) l'.
Proof.
  intros (Hi & Hl & Hg) HF. pose proof (Forall2_length _ _ _ HF) as HL.
  split; [|split].
  - simpl. rewrite Hi. rewrite (map_until_ok _ _ _ HF). reflexivity.
  - simpl. rewrite Hl, HL. reflexivity.
  - intros i. simpl. rewrite Hg.
    unfold py_nth. rewrite <- HL.
    destruct ((if i <? 0 then i + Z.of_nat (length l) else i) <? 0); simpl; auto.
    destruct (Z.of_nat (length l) <=? _); simpl; auto.
    pose proof (forall2_nth_error _ _ _ HF (Z.to_nat (if i <? 0 then i + Z.of_nat (length l) else i))) as Hn.
    destruct (nth_error l _), (nth_error l' _); simpl; auto; try contradiction.
Qed.

(* ---- slice ---- *)
Lemma agrees_slice idx d l : agrees d l -> Forall (fun j => (j < length l)%nat) idx ->
  agrees (DSlice idx d) (map (fun j => nth j l (VInt 0)) idx).
Proof.
  intros (Hi & Hl & Hg) HF. split; [|split].
  - simpl. induction HF; simpl; auto. rewrite Hg, (py_nth_ok l x (VInt 0)) by auto. rewrite IHHF. reflexivity.
  - simpl. rewrite map_length. reflexivity.
  - intros i. simpl. rewrite py_nth_map.
    destruct (py_nth_cases idx i) as [(j & a & Hj & Hn & Hp & _) | (Hp & _)]; rewrite Hp; simpl; auto.
    rewrite Hg. apply py_nth_ok. rewrite Forall_forall in HF. apply HF. eapply nth_error_In; eauto.
Qed.

(* ---- concat ---- *)
Lemma py_nth_nonneg {A} (l : list A) j : 0 <= j ->
  py_nth l j = if Z.of_nat (length l) <=? j then Err IndexErr
               else match nth_error l (Z.to_nat j) with Some a => Ok a | None => Err IndexErr end.
Proof.
  intros H. unfold py_nth. assert (Hj : j <? 0 = false) by lia. rewrite Hj. cbn iota. rewrite Hj. reflexivity.
Qed.
Lemma py_nth_nonneg_app_l {A} (l r : list A) j : 0 <= j < Z.of_nat (length l) -> py_nth (l ++ r) j = py_nth l j.
Proof.
  intros H. rewrite !py_nth_nonneg by lia. rewrite app_length, Nat2Z.inj_add.
  replace (Z.of_nat (length l) + Z.of_nat (length r) <=? j) with false by lia.
  replace (Z.of_nat (length l) <=? j) with false by lia.
  rewrite nth_error_app1 by lia. reflexivity.
Qed.
Lemma py_nth_nonneg_app_r {A} (l r : list A) j : Z.of_nat (length l) <= j ->
  py_nth (l ++ r) j = py_nth r (j - Z.of_nat (length l)).
Proof.
  intros H. rewrite !py_nth_nonneg by lia. rewrite app_length, Nat2Z.inj_add.
  destruct (Z.of_nat (length l) + Z.of_nat (length r) <=? j) eqn:E.
  - replace (Z.of_nat (length r) <=? j - Z.of_nat (length l)) with true by lia. reflexivity.
  - replace (Z.of_nat (length r) <=? j - Z.of_nat (length l)) with false by lia.
    rewrite nth_error_app2 by lia. replace (Z.to_nat j - length l)%nat with (Z.to_nat (j - Z.of_nat (length l))) by lia. reflexivity.
Qed.
Lemma py_nth_neg {A} (l : list A) i : i < 0 ->
  py_nth l i = if i + Z.of_nat (length l) <? 0 then Err IndexErr else py_nth l (i + Z.of_nat (length l)).
Proof.
  intros H. unfold py_nth. assert (i <? 0 = true) by lia. rewrite H0.
  destruct (i + Z.of_nat (length l) <? 0) eqn:E; simpl; auto.
  rewrite E. simpl. reflexivity.
Qed.

Lemma sum_len dl ls : Forall2 agrees dl ls -> sum_res (map len_ dl) = Ok (length (concat ls)).
Proof.
  induction 1; simpl; auto. destruct H as (_ & Hl & _). rewrite Hl. simpl. rewrite IHForall2. simpl.
  rewrite app_length. reflexivity.
Qed.

Lemma agrees_concat dl ls : Forall2 agrees dl ls -> agrees (DConcat dl) (concat ls).
Proof.
  intros HF. split; [|split].
  - simpl. induction HF; simpl; auto. destruct H as (Hi & _). rewrite Hi. rewrite IHHF. reflexivity.
  - simpl. apply sum_len; auto.
  - intros i. simpl. rewrite (sum_len _ _ HF). simpl.
    assert (W : forall j, 0 <= j ->
      (fix walk (l : list ds) (j : Z) : res val :=
         match l with
         | [] => Err IndexErr
         | d :: t => match len_ d with
                     | Ok m => if Z.of_nat m <=? j then walk t (j - Z.of_nat m) else get_i d j
                     | Err e => Err e
                     end
         end) dl j = py_nth (concat ls) j).
    { clear i. induction HF; intros j Hj; simpl.
      - rewrite py_nth_nonneg by lia. simpl. replace (0 <=? j) with true by lia. reflexivity.
      - destruct H as (_ & Hl & Hg). rewrite Hl.
        destruct (Z.of_nat (length y) <=? j) eqn:E.
        + rewrite IHHF by lia. rewrite py_nth_nonneg_app_r by lia. reflexivity.
        + rewrite Hg. rewrite py_nth_nonneg_app_l by lia. reflexivity. }
    destruct (i <? 0) eqn:E.
    + rewrite py_nth_neg by lia. destruct (i + Z.of_nat (length (concat ls)) <? 0) eqn:E2; auto.
      apply W. lia.
    + assert (i <? 0 = false) by auto. rewrite H. apply W. lia.
Qed.
