From Coq Require Import List Arith Bool Lia ZifyBool ZifyNat Permutation.
Import ListNotations.

(* Model D: DynamicBucketDataset.__iter__, generic in the bucket class *)
Section Bucket.
Variable ex : Type.
Variable bucket : Type.
Variable bdata : bucket -> list ex.
Variable binit : ex -> bucket.
Variable bappend : bucket -> ex -> option bucket.     (* maybe_append *)
Variable bcomplete : bucket -> bool.                  (* is_completed *)
Hypothesis binit_data : forall x, bdata (binit x) = [x].
Hypothesis bappend_data : forall b x b', bappend b x = Some b' -> bdata b' = bdata b ++ [x].

Variable expiration : option nat.
Variable max_buffered : option nat.
Variable drop : bool.
Variable srt : list ex -> list ex.                    (* sorted(data, key=sort_key, reverse=...) or identity *)
Hypothesis srt_perm : forall l, Permutation (srt l) l.

Definition open := (bucket * nat)%type.               (* bucket, creation index *)
Inductive outb := Emit (l : list ex) | Drop (l : list ex).
Definition payload (o : outb) := match o with Emit l => l | Drop l => l end.

Definition release (b : bucket) : outb := if drop then Drop (bdata b) else Emit (srt (bdata b)).

(* first fit: returns updated list and the position of the bucket that received x *)
Fixpoint first_fit (bs : list open) (x : ex) (i : nat) : list open * nat :=
  match bs with
  | [] => ([(binit x, i)], 0)
  | (b, c) :: r => match bappend b x with
                   | Some b' => ((b', c) :: r, 0)
                   | None => let '(r', j) := first_fit r x i in ((b, c) :: r', S j)
                   end
  end.

Fixpoint remove_nth {A} (l : list A) (j : nat) : list A :=
  match l, j with [], _ => [] | _ :: r, O => r | a :: r, S j' => a :: remove_nth r j' end.

Definition complete_step (bs : list open) (j : nat) : list open * list outb :=
  match nth_error bs j with
  | Some (b, _) => if bcomplete b then (remove_nth bs j, [Emit (srt (bdata b))]) else (bs, [])
  | None => (bs, [])
  end.

Fixpoint expire_first (bs : list open) (i E : nat) : list open * list outb :=
  match bs with
  | [] => ([], [])
  | (b, c) :: r => if E <=? i - c then (r, [release b])
                   else let '(r', o) := expire_first r i E in ((b, c) :: r', o)
  end.
Definition expire_step (bs : list open) (i : nat) : list open * list outb :=
  match expiration with Some E => expire_first bs i E | None => (bs, []) end.

Definition buffered (bs : list open) : nat := length (concat (map (fun o => bdata (fst o)) bs)).

Fixpoint overflow (fuel : nat) (bs : list open) (M : nat) : list open * list outb :=
  match fuel with
  | O => (bs, [])
  | S f => if M <? buffered bs
           then match bs with
                | [] => ([], [])
                | (b, _) :: r => let '(r', o) := overflow f r M in (r', release b :: o)
                end
           else (bs, [])
  end.
Definition overflow_step (bs : list open) : list open * list outb :=
  match max_buffered with Some M => overflow (length bs) bs M | None => (bs, []) end.

Definition step (bs : list open) (i : nat) (x : ex) : list open * list outb :=
  let '(bs1, j) := first_fit bs x i in
  let '(bs2, o1) := complete_step bs1 j in
  let '(bs3, o2) := expire_step bs2 i in
  let '(bs4, o3) := overflow_step bs3 in
  (bs4, o1 ++ o2 ++ o3).

Fixpoint run (bs : list open) (i : nat) (xs : list ex) : list outb :=
  match xs with
  | [] => map (fun o => release (fst o)) bs
  | x :: r => let '(bs', o) := step bs i x in o ++ run bs' (S i) r
  end.

Definition contents (bs : list open) : list ex := concat (map (fun o => bdata (fst o)) bs).
Definition payloads (os : list outb) : list ex := concat (map payload os).

(* ---------- conservation ---------- *)
Lemma release_payload b : Permutation (payload (release b)) (bdata b).
Proof. unfold release. destruct drop; simpl; auto. Qed.

Lemma first_fit_contents bs x i : forall bs' j, first_fit bs x i = (bs', j) ->
  Permutation (contents bs') (contents bs ++ [x]) /\ j < length bs'.
Proof.
  induction bs as [|[b c] r IH]; simpl; intros bs' j H.
  - inversion H; subst. unfold contents; simpl. rewrite binit_data. simpl. split; auto.
  - destruct (bappend b x) eqn:E.
    + inversion H; subst. unfold contents; simpl. rewrite (bappend_data _ _ _ E). split; [|lia].
      rewrite <- !app_assoc. apply Permutation_app_head. simpl. apply Permutation_cons_append.
    + destruct (first_fit r x i) as [r' j'] eqn:F. inversion H; subst.
      destruct (IH _ _ eq_refl) as [P L]. unfold contents in *; simpl. split; [|lia].
      rewrite <- app_assoc. apply Permutation_app_head. exact P.
Qed.

Lemma remove_nth_contents bs j b c : nth_error bs j = Some (b, c) ->
  Permutation (contents bs) (bdata b ++ contents (remove_nth bs j)).
Proof.
  revert j; induction bs as [|[b0 c0] r IH]; intros [|j] H; simpl in *; try discriminate.
  - inversion H; subst. unfold contents; simpl. auto.
  - unfold contents in *; simpl. rewrite (IH _ H). rewrite !app_assoc. apply Permutation_app_tail. apply Permutation_app_comm.
Qed.

Lemma complete_step_contents bs j bs' o : complete_step bs j = (bs', o) ->
  Permutation (contents bs) (payloads o ++ contents bs').
Proof.
  unfold complete_step. destruct (nth_error bs j) as [[b c]|] eqn:E.
  - destruct (bcomplete b); intros H; inversion H; subst; unfold payloads; simpl; auto.
    rewrite app_nil_r. rewrite (remove_nth_contents _ _ _ _ E). apply Permutation_app_tail. symmetry. apply srt_perm.
  - intros H; inversion H; subst; simpl; auto.
Qed.

Lemma expire_first_contents bs i E : forall bs' o, expire_first bs i E = (bs', o) ->
  Permutation (contents bs) (payloads o ++ contents bs').
Proof.
  induction bs as [|[b c] r IH]; simpl; intros bs' o H.
  - inversion H; subst; auto.
  - destruct (E <=? i - c).
    + inversion H; subst. unfold payloads, contents; simpl. rewrite app_nil_r. apply Permutation_app_tail. symmetry. apply release_payload.
    + destruct (expire_first r i E) as [r' o'] eqn:F. inversion H; subst.
      specialize (IH _ _ eq_refl). unfold contents in *; simpl. rewrite IH.
      rewrite !app_assoc. apply Permutation_app_tail. apply Permutation_app_comm.
Qed.

Lemma overflow_contents fuel : forall bs M bs' o, overflow fuel bs M = (bs', o) ->
  Permutation (contents bs) (payloads o ++ contents bs').
Proof.
  induction fuel as [|f IH]; simpl; intros bs M bs' o H.
  - inversion H; subst; auto.
  - destruct (M <? buffered bs).
    + destruct bs as [|[b c] r]. { inversion H; subst; auto. }
      destruct (overflow f r M) as [r' o'] eqn:F. inversion H; subst.
      specialize (IH _ _ _ _ F). unfold payloads, contents in *; simpl. rewrite IH.
      rewrite <- app_assoc. apply Permutation_app; auto. symmetry; apply release_payload.
    + inversion H; subst; auto.
Qed.

Lemma step_contents bs i x bs' o : step bs i x = (bs', o) ->
  Permutation (contents bs ++ [x]) (payloads o ++ contents bs').
Proof.
  unfold step. destruct (first_fit bs x i) as [bs1 j] eqn:F1.
  destruct (complete_step bs1 j) as [bs2 o1] eqn:F2.
  destruct (expire_step bs2 i) as [bs3 o2] eqn:F3.
  destruct (overflow_step bs3) as [bs4 o3] eqn:F4.
  intros H; inversion H; subst.
  destruct (first_fit_contents _ _ _ _ _ F1) as [P1 _].
  pose proof (complete_step_contents _ _ _ _ F2) as P2.
  assert (P3 : Permutation (contents bs2) (payloads o2 ++ contents bs3)).
  { unfold expire_step in F3. destruct expiration. eapply expire_first_contents; eauto. inversion F3; subst; auto. }
  assert (P4 : Permutation (contents bs3) (payloads o3 ++ contents bs')).
  { unfold overflow_step in F4. destruct max_buffered. eapply overflow_contents; eauto. inversion F4; subst; auto. }
  unfold payloads in *. rewrite !map_app, !concat_app.
  rewrite <- P1, P2, P3, P4. rewrite <- !app_assoc. reflexivity.
Qed.

Theorem conservation : forall xs bs i, Permutation (payloads (run bs i xs)) (contents bs ++ xs).
Proof.
  induction xs as [|x r IH]; intros bs i; simpl.
  - rewrite app_nil_r. unfold payloads, contents. induction bs as [|[b c] t IHb]; simpl; auto.
    apply Permutation_app; auto. apply release_payload.
  - destruct (step bs i x) as [bs' o] eqn:HS. unfold payloads. rewrite map_app, concat_app.
    fold (payloads o). fold (payloads (run bs' (S i) r)). rewrite IH.
    pose proof (step_contents _ _ _ _ _ HS) as P.
    rewrite app_assoc. rewrite <- P. rewrite <- app_assoc. reflexivity.
Qed.

Corollary conservation0 xs : Permutation (payloads (run [] 0 xs)) xs.
Proof. apply (conservation xs [] 0). Qed.

End Bucket.
Print Assumptions conservation0.
