import os, sys, random, warnings, itertools, collections
os.environ['OMP_NUM_THREADS']='1'; os.environ['MKL_NUM_THREADS']='1'
sys.path.insert(0, os.environ.get('VERIF_REPO','/repo')); warnings.simplefilter('ignore')
import numpy as np, lazy_dataset
from lazy_dataset.core import *

# reference: (values list, keys list or None)
class Refused(Exception): pass

def f_add(c): return lambda x: (x + c) if isinstance(x, int) else x
def p_mod(m, r): return lambda x: (hash_val(x) % m) != r
def hash_val(x):
    if isinstance(x, int): return x
    if isinstance(x, (list, tuple)): return sum(hash_val(e) for e in x) + len(x)
    return 7

def gen_prog(rnd, depth):
    n = rnd.choice([0,1,2,3,4,5,7])
    kind = rnd.choice(['dict','list'])
    base = rnd.randrange(0, 50)
    src = ('src', kind, [base + i for i in range(n)], rnd.randrange(1000))
    ops = []
    for _ in range(depth):
        o = rnd.choice(['map','filter','filter_eager','slice','idx','keys','concat_self','concat_other','batch','unbatch','items','tile','shuffle','sort','shard','catch','copy','cache','prefetch1','prefetchN','intersperse','zip','key_zip','reverse'])
        if o == 'map': ops.append(('map', rnd.randrange(1,4)))
        elif o in ('filter','filter_eager'): ops.append((o, rnd.randrange(2,4), rnd.randrange(0,2)))
        elif o == 'slice': ops.append(('slice', rnd.choice([None,0,1,2,-1,-2,5,-7]), rnd.choice([None,0,1,2,3,-1,-2,9]), rnd.choice([None,1,2,-1,-2,3])))
        elif o == 'idx': ops.append(('idx', [rnd.randrange(-3,4) for _ in range(rnd.randrange(0,4))], rnd.random()<0.3))
        elif o == 'keys': ops.append(('keys', rnd.randrange(0,4), rnd.randrange(100)))
        elif o == 'batch': ops.append(('batch', rnd.randrange(1,4), rnd.random()<0.4))
        elif o == 'tile': ops.append(('tile', rnd.randrange(1,4)))
        elif o == 'shuffle': ops.append(('shuffle', rnd.randrange(1000)))
        elif o == 'sort': ops.append(('sort', rnd.random()<0.5, rnd.random()<0.5))
        elif o == 'shard': ops.append(('shard', rnd.randrange(1,4), rnd.randrange(0,3)))
        elif o == 'concat_other': ops.append(('concat_other', rnd.randrange(0,3), rnd.randrange(1000)))
        elif o == 'intersperse': ops.append(('intersperse', rnd.randrange(1,4), rnd.randrange(1000)))
        elif o == 'prefetchN': ops.append(('prefetchN', rnd.randrange(2,4)))
        else: ops.append((o,))
    return src, ops

def build_impl(src, ops):
    _, kind, vals, salt = src
    if kind == 'dict': ds = lazy_dataset.new({f'k{salt}_{i}': v for i, v in enumerate(vals)})
    else: ds = lazy_dataset.new(list(vals))
    for op in ops:
        o = op[0]
        if o == 'map': ds = ds.map(f_add(op[1]))
        elif o == 'filter': ds = ds.filter(p_mod(op[1], op[2]))
        elif o == 'filter_eager': ds = ds.filter(p_mod(op[1], op[2]), lazy=False)
        elif o == 'slice': ds = ds[op[1]:op[2]:op[3]]
        elif o == 'idx': ds = ds[np.array(op[1], dtype=int) if op[2] else list(op[1])]
        elif o == 'keys':
            ks = list(ds.keys()); r = random.Random(op[2]); sel = [r.choice(ks) for _ in range(op[1])] if ks else []
            ds = ds[sel]
        elif o == 'concat_self': ds = ds.concatenate(ds)
        elif o == 'concat_other': ds = ds.concatenate(lazy_dataset.new({f'o{op[2]}_{i}': 100+i for i in range(op[1])}))
        elif o == 'intersperse': ds = ds.intersperse(lazy_dataset.new({f'i{op[2]}_{i}': 200+i for i in range(op[1])}))
        elif o == 'batch': ds = ds.batch(op[1], drop_last=op[2])
        elif o == 'unbatch': ds = ds.unbatch()
        elif o == 'items': ds = ds.items()
        elif o == 'tile': ds = ds.tile(op[1])
        elif o == 'shuffle': ds = ds.shuffle(rng=np.random.RandomState(op[1]))
        elif o == 'sort': ds = ds.sort(hash_val if op[1] else None, reverse=op[2])
        elif o == 'shard': ds = ds.shard(op[1], op[2])
        elif o == 'catch': ds = ds.catch()
        elif o == 'copy': ds = ds.copy()
        elif o == 'cache': ds = ds.cache()
        elif o == 'prefetch1': ds = ds.prefetch(1, 2)
        elif o == 'prefetchN': ds = ds.prefetch(op[1], op[1]+1)
        elif o == 'zip': ds = ds.zip(ds.map(f_add(1)))
        elif o == 'key_zip': ds = ds.key_zip(ds.map(f_add(1)))
        elif o == 'reverse': ds = ds[::-1]
    return ds

# reference semantics on (vals, keys-or-None, indexable, sized)
def ref(src, ops):
    _, kind, vals, salt = src
    V = list(vals); K = [f'k{salt}_{i}' for i in range(len(vals))] if kind == 'dict' else None
    idxable = True; sized = True; items_ok = K is not None   # items_ok: items() defined
    dupkeys = False
    for op in ops:
        o = op[0]
        if o == 'map': V = [f_add(op[1])(v) for v in V]
        elif o in ('filter','filter_eager'):
            if o == 'filter_eager' and not idxable: raise Refused()
            keep = [i for i, v in enumerate(V) if p_mod(op[1], op[2])(v)]
            V = [V[i] for i in keep]; K = [K[i] for i in keep] if K is not None else None
            if o == 'filter':
                idxable = False; sized = False; KEYS_DEFINED = False
        elif o == 'slice':
            if not idxable: raise Refused()
            if op[3] == 0: raise Refused()
            s = slice(op[1], op[2], op[3]); V = V[s]; K = K[s] if K is not None else None
        elif o == 'idx':
            if not idxable: raise Refused()
            n = len(V)
            if any(i < -n or i >= n for i in op[1]): raise Refused()
            V = [V[i] for i in op[1]]; K = [K[i] for i in op[1]] if K is not None else None
        elif o == 'keys':
            raise Refused()  # handled specially: skip in reference
        elif o == 'reverse':
            if not idxable: raise Refused()
            V = V[::-1]; K = K[::-1] if K is not None else None
        elif o == 'concat_self':
            V = V + V; K = K + K if K is not None else None
        elif o == 'concat_other':
            V = V + [100+i for i in range(op[1])]; K = (K + [f'o{op[2]}_{i}' for i in range(op[1])]) if K is not None else None
        elif o == 'intersperse':
            if not sized or len(V) == 0: raise Refused()
            a = [((i+1)/len(V), 0, i) for i in range(len(V))] + [((i+1)/op[1], 1, i) for i in range(op[1])]
            a.sort(); V2 = [200+i for i in range(op[1])]; K2 = [f'i{op[2]}_{i}' for i in range(op[1])]
            V = [V[i] if d == 0 else V2[i] for _, d, i in a]
            K = [K[i] if d == 0 else K2[i] for _, d, i in a] if K is not None else None
        elif o == 'batch':
            n = op[1]; B = [V[i:i+n] for i in range(0, len(V), n)]
            if op[2] and B and len(B[-1]) < n: B = B[:-1]
            V = B; K = None; items_ok = False
        elif o == 'unbatch':
            if any(not isinstance(v, (list, tuple)) for v in V): raise Refused()
            V = [e for b in V for e in b]; K = None; idxable = False; sized = False; items_ok = False
        elif o == 'items':
            if K is None: raise Refused()
            V = list(zip(K, V))
        elif o == 'tile': V = V * op[1]; K = K * op[1] if K is not None else None
        elif o == 'shuffle':
            if not sized or not idxable: raise Refused()
            perm = np.arange(len(V)); np.random.RandomState(op[1]).shuffle(perm)
            V = [V[i] for i in perm]; K = [K[i] for i in perm] if K is not None else None
        elif o == 'sort':
            if not idxable: raise Refused()
            if op[1]:
                order = [i for _, i in sorted(zip([hash_val(v) for v in V], itertools.count()), reverse=op[2])]
            else:
                if K is None or len(set(K)) != len(K): raise Refused()
                sk = sorted(K, reverse=op[2]); order = [K.index(k) for k in sk]
            V = [V[i] for i in order]; K = [K[i] for i in order] if K is not None else None
        elif o == 'shard':
            if not idxable or not sized: raise Refused()
            k, i = op[1], op[2]
            if k < 1 or k > len(V) or i >= k: raise Refused()
            parts = np.array_split(np.arange(len(V)), k); sel = list(parts[i])
            V = [V[j] for j in sel]; K = [K[j] for j in sel] if K is not None else None
        elif o == 'catch':
            if not idxable: raise Refused()
            idxable = False; sized = False
        elif o == 'copy': pass
        elif o == 'cache':
            if not idxable: raise Refused()
        elif o == 'prefetch1': idxable = False
        elif o == 'prefetchN':
            if not idxable or not sized: raise Refused()
            idxable = False
        elif o == 'zip':
            if not sized: raise Refused()
            V = [(v, f_add(1)(v)) for v in V]; K = None; items_ok = False
        elif o == 'key_zip':
            if K is None or len(set(K)) != len(K): raise Refused()
            V = [(v, f_add(1)(v)) for v in V]
    return V, K, idxable, sized

def observe(ds):
    out = {}
    def tr(name, f):
        try: out[name] = ('ok', f())
        except BaseException as e: out[name] = ('err', type(e).__name__)
    tr('iter1', lambda: list(ds)); tr('iter2', lambda: list(ds)); tr('len', lambda: len(ds))
    tr('keys', lambda: tuple(ds.keys())); tr('items', lambda: list(ds.items()))
    n = out['len'][1] if out['len'][0] == 'ok' else None
    if n is not None and isinstance(n, int):
        for i in range(-n-2, n+2):
            tr(('get', i), lambda: ds[i])
    return out

def main(seed, N):
    rnd = random.Random(seed); stats = collections.Counter(); reports = collections.OrderedDict()
    for t in range(N):
        src, ops = gen_prog(rnd, rnd.randrange(1, 5))
        if any(o[0] == 'keys' for o in ops): continue
        try: V, K, idxable, sized = ref(src, ops); refused = False
        except Refused: refused = True
        except Exception as e: stats['ref_crash'] += 1; continue
        try: ds = build_impl(src, ops); built = True
        except BaseException as e: built = False; berr = type(e).__name__
        if refused:
            stats['refused_ref'] += 1
            continue
        if not built:
            key = ('BUILD-FAIL', berr, tuple(o[0] for o in ops)[-2:]); reports.setdefault(key, (src, ops)); stats['buildfail'] += 1; continue
        stats['built'] += 1
        obs = observe(ds)
        def rep(kind, detail): 
            key = (kind, tuple(o[0] for o in ops)[-2:]); reports.setdefault(key, (src, ops, detail)); stats[kind] += 1
        if obs['iter1'] != ('ok', V): rep('ITER', (obs['iter1'], V))
        if obs['iter2'] != obs['iter1']: rep('ITER2', (obs['iter1'], obs['iter2']))
        if obs['len'][0] == 'ok' and obs['len'][1] != len(V): rep('LEN', (obs['len'], len(V)))
        if obs['len'][0] == 'ok' and idxable:
            n = len(V)
            for i in range(-n-2, n+2):
                exp = ('ok', V[i]) if -n <= i < n else ('err', 'IndexError')
                if obs.get(('get', i)) != exp: rep('GET', (i, obs.get(('get', i)), exp)); break
        if K is not None and obs['keys'][0] == 'ok' and list(obs['keys'][1]) != K: rep('KEYS', (obs['keys'], K))
        if K is not None and len(set(K)) == len(K) and obs['keys'][0] != 'ok' and idxable and ops[-1][0] not in ('items',): rep('KEYS-REFUSED', (obs['keys'], K))
        if obs['items'][0] == 'ok':
            if K is None: rep('ITEMS-NO-KEYS', obs['items'])
            elif obs['items'][1] != list(zip(K, V)): rep('ITEMS', (obs['items'], list(zip(K, V))))
    print(dict(stats))
    for k, v in list(reports.items())[:40]:
        print(k, '\n    ', v)
main(int(sys.argv[1]) if len(sys.argv) > 1 else 1, int(sys.argv[2]) if len(sys.argv) > 2 else 3000)
