From Coq Require Import List Arith Bool Lia ZifyBool ZifyNat.
Import ListNotations.
Require Import PrefetchST.

(* first failure of the source *)
Fixpoint first_fail (l : list sev) : option (bool * nat) :=
  match l with SOk _ :: r => first_fail r | SFail ie t :: _ => Some (ie, t) | [] => None end.

Definition finishing (w : wpc) : bool := match w with WExc _ | WFin | WPutS | WEnd => true | _ => false end.
Definition post_c4 (c : cpc) : bool := match c with C4 | C5 | C6 | C7 | CEnd => true | _ => false end.
Definition post_shutdown (c : cpc) : bool := match c with C5 | C6 | C7 | CEnd => true | _ => false end.
Definition hand_c (c : cpc) : list nat := match c with C2 (Val v) => [v] | _ => [] end.
Definition hand_w (w : wpc) : list nat := match w with W2 v | W3 v => [v] | _ => [] end.

Section Outcome.
Variable B : nat.
Variable cb : bool.
Hypothesis Bpos : 1 <= B.
Variable src0 : list sev.
Notation step := (step B None cb).       (* K = None: the consumer never closes early *)

(* what the worker has recorded must match the first failure of the source *)
Definition outcome_ok (s : st) : Prop :=
  match first_fail src0 with
  | None => exc s = None /\ died s = None
  | Some (ie, t) => if ie || cb then exc s = Some t /\ died s = None else exc s = None /\ died s = Some t
  end.

Record XInv (s : st) : Prop := {
  X_sd : shutdown s = post_shutdown (cp s);
  X_cl : closing s = false;
  X_order : shutdown s = false ->
     delivered s ++ hand_c (cp s) ++ vals (q s) ++ hand_w (wp s) ++ oks_before (src s) = oks_before src0;
  X_sent : In Sentinel (q s) -> wp s = WEnd /\ exists q', q s = q' ++ [Sentinel] /\ ~ In Sentinel q';
  X_c2 : cp s = C2 Sentinel -> wp s = WEnd /\ q s = [];
  X_fin : finishing (wp s) = true -> src s = [] /\ hand_w (wp s) = [];
  X_post : post_c4 (cp s) = true -> wp s = WEnd /\ q s = [] /\ delivered s = oks_before src0;
  X_out : match wp s with
          | WExc t => exists ie, first_fail src0 = Some (ie, t) /\ ie || cb = true /\ exc s = None /\ died s = None
          | WFin | WPutS | WEnd => outcome_ok s
          | _ => first_fail (src s) = first_fail src0 /\ exc s = None /\ died s = None
          end;
  X_wend : wp s = WEnd -> shutdown s = false -> In Sentinel (q s) \/ cp s = C2 Sentinel \/ cp s = C4;
}.

Lemma vals_app a b : vals (a ++ b) = vals a ++ vals b.
Proof. unfold vals. apply flat_map_app. Qed.

Lemma xinv_init : XInv (init src0).
Proof. constructor; simpl; intros; try discriminate; try contradiction; auto. Qed.

Ltac inv_step :=
  repeat match goal with
  | H : Some _ = Some _ |- _ => inversion H; subst; clear H
  | H : None = Some _ |- _ => discriminate
  | H : context [if ?b then _ else _] |- _ => destruct b eqn:?
  | H : context [match ?x with _ => _ end] |- _ => destruct x eqn:?
  end.

Lemma sentinel_last (q' : list item) x r : x :: r = q' ++ [Sentinel] -> ~ In Sentinel q' ->
  (x = Sentinel /\ r = []) \/ (x <> Sentinel /\ exists q'', r = q'' ++ [Sentinel] /\ ~ In Sentinel q'').
Proof.
  destruct q' as [|y q'']; simpl; intros E N.
  - inversion E; subst. left; auto.
  - inversion E; subst. right. split. { intros ->. apply N; left; auto. } exists q''. split; auto.
Qed.

Lemma xinv_step s t s' : XInv s -> step s t = Some s' -> XInv s'.
Proof.
  intros [Xsd Xcl Xord Xsent Xc2 Xfin Xpost Xout Xwend] Hs.
  destruct s as [sr qq sd ex w c dl pl cl di]. simpl in *. subst cl.
  destruct t; simpl in Hs.
  - (* consumer *)
    unfold cstep, set_c, want_close in Hs; simpl in Hs.
    destruct c; simpl in *; subst sd; inv_step; constructor; simpl in *; intros;
      try discriminate; try reflexivity; try contradiction; auto.
    all: repeat match goal with H : ?x = ?x -> _ |- _ => specialize (H eq_refl) end.
    all: try (rewrite <- ?app_assoc in *; simpl in *; assumption).
    all: try tauto.
    all: admit.
  - admit.
Admitted.
End Outcome.
